fn main() {
    println!("cargo:rustc-cfg=desync_verif");
    println!("cargo:rustc-check-cfg=cfg(desync_verif)");
    println!("cargo:rerun-if-changed=build.rs");
}
