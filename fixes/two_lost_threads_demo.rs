extern crate desync;
use desync::*;
use desync::scheduler::*;
use std::sync::atomic::{AtomicUsize, Ordering};
use std::sync::{mpsc, Arc};
use std::thread;
use std::time::Duration;

#[test]
fn pool_replaces_every_thread_it_lost() {
    scheduler().set_max_threads(2);
    scheduler().despawn_threads_if_overloaded();

    let (go_tx1, go_rx1) = mpsc::channel::<()>();
    let (go_tx2, go_rx2) = mpsc::channel::<()>();
    let doomed1 = Desync::new(0u32);
    let doomed2 = Desync::new(0u32);
    let waiting = Arc::new(Desync::new(0u32));
    let other   = Arc::new(Desync::new(0u32));

    // both pool threads are busy with jobs that are going to panic
    doomed1.desync(move |_| { go_rx1.recv().ok(); panic!("first pool thread lost (expected)"); });
    doomed2.desync(move |_| { go_rx2.recv().ok(); panic!("second pool thread lost (expected)"); });
    thread::sleep(Duration::from_millis(100));

    // a job on a healthy object is queued while no thread is free
    waiting.desync(|v| { thread::sleep(Duration::from_millis(300)); *v += 1 });

    // both threads die
    go_tx1.send(()).unwrap();
    go_tx2.send(()).unwrap();
    thread::sleep(Duration::from_millis(300));

    // two long-running jobs on two healthy objects: with a maximum of two threads both must be able to run at once
    let running = Arc::new(AtomicUsize::new(0));
    let (release_tx, release_rx) = mpsc::channel::<()>();
    let release_rx = Arc::new(std::sync::Mutex::new(release_rx));
    let _ = &release_rx;
    for obj in [&other, &waiting] {
        let running = Arc::clone(&running);
        let release_rx = Arc::clone(&release_rx);
        obj.desync(move |_| {
            running.fetch_add(1, Ordering::SeqCst);
            let _ = release_rx.lock().unwrap().recv_timeout(Duration::from_secs(10));
        });
        // (the replacement thread has picked up the job that was waiting by the time the next job is scheduled)
        thread::sleep(Duration::from_millis(50));
    }
    thread::sleep(Duration::from_millis(1000));
    let started = running.load(Ordering::SeqCst);
    release_tx.send(()).ok();
    release_tx.send(()).ok();

    std::mem::forget(doomed1);
    std::mem::forget(doomed2);
    assert_eq!(started, 2, "only {} of 2 long-running jobs on healthy objects were started although the pool may have 2 threads", started);
}
