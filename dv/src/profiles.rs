//! Per-property generator profiles, non-triviality rules and class labels (DESIGN.md section 6).

use crate::case::*;
use crate::gen::*;
use crate::interp::Outcome;
use proptest::collection::vec;
use proptest::prelude::*;

pub const ALL: [&str; 17] = ["C01", "C02", "C03", "C04", "C05", "C06", "C07", "C08", "C09", "C10", "C11", "C12", "C13", "C14", "C15", "C16", "C17"];

pub fn profile(id: &str) -> Profile {
    let mut p = Profile::default();
    match id {
        "C01" => {
            p.opw = OpW { yield_: 1, waitfor: 1, trysync: 5, pollonce: 4, ..OpW::default() };
            p.stepw = StepW { yield_: 12, ..StepW::default() };
            p.body = (1, 3);
        }
        "C02" => {
            p.opw = OpW { waitfor: 8, desync: 10, sync: 8, futdesync: 6, futsync: 4, after: 3, await_: 5, trysync: 3, ..OpW::default() };
            p.ops = (2, 6);
            p.callers = (2, 4);
        }
        "C03" => {
            p.pool = (1, 3);
            p.opw = OpW { desync: 14, futdesync: 6, after: 3, sync: 3, trysync: 3, futsync: 0, await_: 2, waitfor: 8, release: 0, pollonce: 1, ..OpW::default() };
            p.stepw = StepW { nested_desync: 4, blockongate: 0, ..StepW::default() };
            p.callers = (1, 4);
            p.ops = (2, 6);
        }
        "C04" => {
            p.shape = Shape::AbandonedPoll;
            p.opw = OpW { sync: 16, desync: 6, futdesync: 5, trysync: 2, futsync: 4, after: 2, await_: 3, waitfor: 3, pollonce: 5, dropfut: 3, ..OpW::default() };
            p.stepw = StepW { nested_sync: 5, ..StepW::default() };
            p.callers = (2, 4);
        }
        "C05" => {
            // (round 6: futures are also polled, awaited and abandoned here, so that the last owner goes away while the queue is parked
            // by a polled future, is being run by the task that awaits it, or has just been handed back by one)
            p.opw = OpW { release: 8, desync: 10, futdesync: 6, sync: 3, pollonce: 4, await_: 3, dropfut: 2, futsync: 2, after: 2, opengate: 3, trysync: 1, ..OpW::default() };
            p.stepw = StepW { release: 3, nested_desync: 3, ..StepW::default() };
            p.lifecycle_pct = 15;
            p.lifecycle_release_pct = 50;
            p.gates = (1, 3);
            p.wakers = (0, 2);
            p.root_holds_pct = 0;
            p.queue_level_pct = 0;
            p.objects = (1, 3);
        }
        "C06" => {
            p.opw = OpW { futdesync: 10, after: 6, futsync: 5, desync: 5, sync: 5, await_: 8, opengate: 8, pollonce: 4, trysync: 1, ..OpW::default() };
            p.stepw = StepW { awaitgate: 14, touch: 4, yield_: 4, ..StepW::default() };
            p.gates = (1, 3);
            p.wakers = (1, 2);
            p.body = (1, 3);
            p.double_wake_pct = 40;
        }
        "C07" => {
            p.opw = OpW { futdesync: 12, after: 6, await_: 10, syncwait: 5, pollonce: 6, dropfut: 5, detach: 3, desync: 4, sync: 3, futsync: 1, trysync: 1, awaitjoin: 6, ..OpW::default() };
            p.lifecycle_pct = 20;
            p.objects = (1, 2);
            p.callers = (2, 4);
            p.gates = (1, 3);
            p.wakers = (1, 2);
        }
        "C08" => {
            p.opw = OpW { futsync: 12, await_: 8, dropfut: 8, pollonce: 8, desync: 6, sync: 4, futdesync: 4, ..OpW::default() };
            p.stepw = StepW { awaitfutsync: 4, awaitfutdesync: 3, awaitgate: 8, ..StepW::default() };
            p.lifecycle_pct = 25;
            p.gates = (1, 3);
            p.wakers = (1, 2);
        }
        "C09" => {
            p.opw = OpW { trysync: 16, sync: 6, desync: 8, futdesync: 7, pollonce: 6, dropfut: 5, await_: 4, futsync: 2, after: 2, rewake: 4, opengate: 4, ..OpW::default() };
            p.stepw = StepW { yield_: 10, ..StepW::default() };
            p.gates = (1, 3);
            p.wakers = (1, 2);
            p.callers = (2, 4);
        }
        "C10" => {
            p.shape = Shape::Gated;
            p.pool = (1, 3);
            p.objects = (2, 4);
            p.gates = (1, 2);
        }
        "C11" => {
            p.shape = Shape::PipeIn;
            p.opw = OpW { pipein: 1, desync: 6, sync: 6, release: 3, trysync: 2, futdesync: 2, await_: 2, opengate: 4, ..OpW::default() };
            p.streams = (1, 2);
            p.queue_level_pct = 0;
            p.gates = (0, 2);
            p.pool = (1, 3);
            p.root_holds_pct = 40;
        }
        "C12" => {
            p.shape = Shape::PipeConsume;
            p.opw = OpW { pipe: 2, consume: 6, desync: 4, sync: 3, futdesync: 2, await_: 2, ..OpW::default() };
            p.streams = (1, 2);
            p.queue_level_pct = 0;
            p.pool = (1, 3);
            p.gates = (0, 2);
        }
        "C13" => {
            p.shape = Shape::Suspend;
            p.queue_level_pct = 100;
            p.opw = OpW { suspend: 8, awaitsuspend: 10, resume: 6, dropresumer: 3, desync: 10, sync: 6, futdesync: 4, await_: 3, trysync: 2, waitfor: 4, futsync: 0, after: 1, ..OpW::default() };
        }
        "C14" => {
            p.opw = OpW { release: 5, sync: 10, trysync: 5, futsync: 5, futdesync: 7, after: 4, opengate: 5, dropfut: 3, ..OpW::default() };
            p.stepw = StepW { release: 1, nested_sync: 2, nested_desync: 3, ..StepW::default() };
            p.root_holds_pct = 20;
            p.queue_level_pct = 0;
            p.gates = (1, 3);
            p.wakers = (1, 2);
            p.keep_going_after_early_destroy = true;
        }
        "C15" => {
            p.shape = Shape::Panic;
            p.pool = (1, 3);
            p.objects = (2, 4);
            p.queue_level_pct = 0;
        }
        "C16" => {
            p.shape = Shape::PipeDrop;
            p.opw = OpW { pipe: 2, droppipe: 2, consume: 3, desync: 5, sync: 3, yield_: 4, futdesync: 2, await_: 2, ..OpW::default() };
            p.streams = (1, 2);
            p.queue_level_pct = 0;
            p.gates = (0, 2);
            p.pool = (1, 3);
        }
        "C17" => {
            p.shape = Shape::PoolChange;
            p.pool = (0, 3);
            p.opw = OpW { desync: 14, futdesync: 5, sync: 4, trysync: 1, futsync: 1, after: 1, await_: 3, ..OpW::default() };
            p.callers = (2, 4);
        }
        _ => {}
    }
    p
}

// ------------------------------------------------------------------------------------------------
// special shapes

/// C10: objects 0..k are blocked on gates that stay closed during phase 0; the remaining objects get
/// ordinary programs from their own callers and must finish by the quiescence that ends phase 0.
pub fn gated_case(p: &Profile) -> BoxedStrategy<Case> {
    let p = p.clone();
    let mut free = p.clone();
    free.opw = OpW { desync: 12, sync: 6, trysync: 2, futdesync: 4, await_: 3, futsync: 2, after: 0, waitfor: 2, opengate: 0, release: 0, ..OpW::default() };
    free.stepw = StepW { awaitgate: 0, opengate: 0, blockongate: 0, nested_desync: 0, nested_sync: 0, nested_futdesync: 0, awaitfutsync: 0, awaitfutdesync: 0, ..StepW::default() };
    let free_ops = vec(vec(op_strategy(&free), 1..=5), 1..=3);
    (1u8..=3, 2u8..=4, any::<u8>(), free_ops, vec((0u8..4, any::<u8>()), 1..=3), sched_strategy(p.sched_bytes), prop::bool::weighted(0.3), prop::bool::ANY, (prop::bool::weighted(0.25), 0u8..=1, any::<u8>())).prop_map(|(pool, objects, kraw, mut free_callers, blockers, sched, unlock_points, extra_sync, (raise, p0, nraw))| {
        if raise && objects >= 3 {
            // variant: the work is scheduled while the pool is too small to serve it (0 or 1 threads, the blocked objects may
            // take them all); then the maximum is raised through the public API and nothing else is called: every free
            // object must be served by the threads that may now be spawned
            let k = (1 + (kraw as usize * 2 >> 8)).min(objects as usize - 1).min(2);
            let n = (k as u8 + 1) + ((nraw as usize * (3 - k)) >> 8) as u8;
            let mut callers: Vec<Vec<Op>> = vec![];
            for b in 0..k {
                let (kind, _) = blockers[b % blockers.len()];
                let g = b as u8;
                callers.push(vec![match kind {
                    1 => Op::FutDesync { o: b as u8, body: vec![Step::AwaitGate { g }, Step::Touch], slot: 0, id: 0 },
                    _ => Op::Desync { o: b as u8, body: vec![Step::Touch, Step::BlockOnGate { g }], id: 0 },
                }]);
            }
            let nfree = objects as usize - k;
            for c in free_callers.iter_mut() {
                for op in c.iter_mut() {
                    // asynchronous work only: with this few threads a synchronous call would run the queue on the caller
                    let (o, body) = match op {
                        Op::Desync { o, body, .. } => (*o, body.clone()),
                        Op::Sync { o, body, .. } | Op::TrySync { o, body, .. } => (*o, body.clone()),
                        Op::FutDesync { o, .. } | Op::FutSync { o, .. } => (*o, vec![Step::Touch, Step::Yield]),
                        _ => (0, vec![Step::Touch]),
                    };
                    *op = Op::Desync { o, body, id: 0 };
                    remap_obj(op, k, nfree, objects as usize);
                }
            }
            callers.extend(free_callers);
            let must: Vec<u8> = (k as u8..objects).collect();
            let cfg = Cfg { pool: p0, objects, gates: k as u8, streams: 0, level: Level::Desync, unlock_points, spurious: vec![], pre_open: vec![], root_holds: true, double_wake: false, gate_keep_all: false, stream_always_register: false, keep_going_after_early_destroy: false, despawn_without_quiescence: false, unwinding_drops: false, consumer_probe_polls: false, chained_streams: false, stream_self_wakes: 0, guard_syncs: false, stream_wakes_on_drop: false, payload_bomb: false, unwinding_attempts: false };
            let phase0 = Phase { callers, ..Default::default() };
            let phase1 = Phase { root: vec![RootAct::SetPoolPublic { n, atomic: nraw % 4 != 0 }], must_finish_objs: must, ..Default::default() };
            return Case { cfg, phases: vec![phase0, phase1], sched };
        }
        // k blocked objects, k < pool and k < objects
        let kmax = (pool as usize - 0).min(objects as usize - 1);
        let k = if kmax <= 1 { kmax.min(1).min(pool as usize - 1 + 0).max(0) } else { 1 + (kraw as usize * (kmax - 1) >> 8) };
        let k = k.min(pool as usize - 1).min(objects as usize - 1);
        let gates = k.max(1) as u8;
        // callers on gated objects: each blocks one pool thread (BlockOnGate job) or suspends a future, optionally with a sync caller behind
        let mut callers: Vec<Vec<Op>> = vec![];
        for b in 0..k {
            let (kind, _) = blockers[b % blockers.len()];
            let g = b as u8;
            let mut ops = vec![];
            match kind {
                0 => ops.push(Op::Desync { o: b as u8, body: vec![Step::Touch, Step::BlockOnGate { g }], id: 0 }),
                1 => ops.push(Op::FutDesync { o: b as u8, body: vec![Step::AwaitGate { g }, Step::Touch], slot: 0, id: 0 }),
                // the job hands work to a free object and then blocks: that work must not wait for this job's thread
                3 => ops.push(Op::Desync { o: b as u8, body: vec![Step::NestedDesync { o: 255, body: vec![Step::Touch], id: 0 }, Step::BlockOnGate { g }], id: 0 }),
                _ => ops.push(Op::Desync { o: b as u8, body: vec![Step::BlockOnGate { g }], id: 0 }),
            }
            if extra_sync {
                ops.push(Op::Sync { o: b as u8, body: vec![Step::Touch], id: 0 });
            }
            callers.push(ops);
        }
        // free callers only touch objects k..objects: remap their (raw) object indices into that range
        let nfree = objects as usize - k;
        for c in free_callers.iter_mut() {
            for op in c.iter_mut() {
                remap_obj(op, k, nfree, objects as usize);
            }
        }
        let first_free = callers.len();
        let _ = first_free;
        callers.extend(free_callers);
        let must: Vec<u8> = (k as u8..objects).collect();
        let cfg = Cfg { pool, objects, gates, streams: 0, level: Level::Desync, unlock_points, spurious: vec![], pre_open: vec![], root_holds: true, double_wake: false, gate_keep_all: false, stream_always_register: false, keep_going_after_early_destroy: false, despawn_without_quiescence: false, unwinding_drops: false, consumer_probe_polls: false, chained_streams: false, stream_self_wakes: 0, guard_syncs: false, stream_wakes_on_drop: false, payload_bomb: false, unwinding_attempts: false };
        let phase0 = Phase { callers, must_finish_objs: if k > 0 { must } else { vec![] }, ..Default::default() };
        Case { cfg, phases: vec![phase0], sched }
    })
    .boxed()
}

/// Rewrites the raw object index of `op` so that after scaling by `objects` it lands in lo..lo+n
fn remap_obj(op: &mut Op, lo: usize, n: usize, objects: usize) {
    let f = |raw: &mut u8| {
        let target = lo + ((*raw as usize * n) >> 8);
        // smallest raw value that scales to `target`
        *raw = (((target * 256) + objects - 1) / objects).min(255) as u8;
    };
    match op {
        Op::Desync { o, .. } | Op::Sync { o, .. } | Op::TrySync { o, .. } | Op::FutDesync { o, .. } | Op::FutSync { o, .. } | Op::After { o, .. } | Op::Release { o } | Op::Suspend { o, .. } | Op::PipeIn { o, .. } | Op::Pipe { o, .. } | Op::Attempt { o, .. } => f(o),
        _ => {}
    }
}

/// C15: phase 0 contains exactly one panicking op on object 0 in a chosen runner context, other objects
/// may have work in flight; phase 1 (after the unwinding task is finished) probes capacity, attempts
/// every scheduling kind on the panicked object and runs a fresh program on the healthy objects.
pub fn panic_case(p: &Profile) -> BoxedStrategy<Case> {
    let p = p.clone();
    let mut healthy = p.clone();
    healthy.opw = OpW { desync: 10, sync: 8, trysync: 2, futdesync: 5, await_: 5, futsync: 2, after: 0, waitfor: 1, opengate: 0, rewake: 0, release: 0, pollonce: 1, ..OpW::default() };
    healthy.stepw = StepW { awaitgate: 0, opengate: 0, blockongate: 0, nested_sync: 0, nested_desync: 1, nested_futdesync: 0, awaitfutsync: 0, awaitfutdesync: 0, ..StepW::default() };
    let bystanders = vec(vec(op_strategy(&healthy), 0..=3), 0..=2);
    let phase2 = vec(vec(op_strategy(&healthy), 1..=4), 1..=3);
    (1u8..=3, 2u8..=4, 0u8..17, bystanders, phase2, sched_strategy(p.sched_bytes), prop::bool::weighted(0.3), vec(0u8..5, 1..=3), (prop::bool::weighted(0.3), vec((any::<u8>(), 0u8..4), 0..=2), prop::bool::weighted(0.2), prop::bool::weighted(0.25), prop::bool::weighted(0.25))).prop_map(|(pool, objects, ctx, mut by, mut ph2, sched, unlock_points, attempts, (quiet, parked, second, payload_bomb, unwinding_attempts))| {
        // the panicking op and its runner context
        let mut callers: Vec<Vec<Op>> = vec![];
        let panic_body = vec![Step::Touch, Step::Yield, Step::Panic];
        let mut stale_rewake = false;
        let mut guard_syncs = false;
        match ctx {
            // pool thread runs a plain job
            0 => callers.push(vec![Op::Desync { o: 0, body: panic_body, id: 0 }]),
            // pool thread runs a future job, panic after a suspension
            // (the waker it suspended with is fired again once the panic is over: a stale wake-up for a panicked queue)
            1 => {
                callers.push(vec![Op::FutDesync { o: 0, body: vec![Step::AwaitGate { g: 0 }, Step::Panic], slot: 0, id: 0 }, Op::DropFut { slot: 0 }, Op::OpenGate { g: 0 }]);
                stale_rewake = true;
            }
            // the same future job, but (when the pool is late) drained by a sync caller: it suspends with the caller's thread waker,
            // panics on its second poll inside sync(), and the thread waker is fired again afterwards
            11 => {
                callers.push(vec![Op::FutDesync { o: 0, body: vec![Step::AwaitGate { g: 0 }, Step::Panic], slot: 0, id: 0 }, Op::DropFut { slot: 0 }, Op::Sync { o: 0, body: vec![Step::Touch], id: 0 }]);
                callers.push(vec![Op::Yield, Op::Yield, Op::Yield, Op::OpenGate { g: 0 }]);
                stale_rewake = true;
            }
            // sync caller, immediate path
            2 => callers.push(vec![Op::Sync { o: 0, body: panic_body, id: 0 }]),
            // sync caller draining an earlier panicking job (or waiting for the pool to run it)
            3 => callers.push(vec![Op::Desync { o: 0, body: panic_body, id: 0 }, Op::Sync { o: 0, body: vec![Step::Touch], id: 0 }]),
            // a second sync caller waits in the background and may steal the queue with the panicking job in it
            4 => {
                callers.push(vec![Op::Sync { o: 0, body: vec![Step::Yield, Step::Yield, Step::Yield], id: 0 }]);
                callers.push(vec![Op::Yield, Op::Desync { o: 0, body: panic_body, id: 0 }]);
                callers.push(vec![Op::Yield, Op::Sync { o: 0, body: vec![Step::Touch], id: 0 }]);
            }
            // polling task drains a panicking job
            5 => callers.push(vec![Op::Desync { o: 0, body: panic_body, id: 0 }, Op::FutDesync { o: 0, body: vec![Step::Touch], slot: 0, id: 0 }, Op::Await { slot: 0 }]),
            // future_desync panicking before any suspension
            6 => callers.push(vec![Op::FutDesync { o: 0, body: vec![Step::Touch, Step::Panic], slot: 0, id: 0 }, Op::Await { slot: 0 }]),
            // try_sync closure panics (immediate path)
            7 => callers.push(vec![Op::TrySync { o: 0, body: panic_body, probe: false, id: 0 }]),
            // the closure of `after` panics once its future has completed (pool thread, or whoever drains the queue)
            8 => {
                callers.push(vec![Op::After { o: 0, g: 0, body: vec![Step::Touch, Step::Panic], slot: 0, id: 0 }, Op::DropFut { slot: 0 }]);
                callers.push(vec![Op::Yield, Op::OpenGate { g: 0 }]);
            }
            // an earlier future operation of the object was suspended on gate 0 and has completed; then a plain job panics. The
            // gate still has the old waker: phase 1 begins by firing it again (a stale wake-up for a queue that has panicked since)
            10 => {
                callers.push(vec![Op::FutDesync { o: 0, body: vec![Step::AwaitGate { g: 0 }, Step::Touch], slot: 0, id: 0 }, Op::Await { slot: 0 }, Op::Desync { o: 0, body: panic_body, id: 0 }]);
                callers.push(vec![Op::Yield, Op::Yield, Op::OpenGate { g: 0 }]);
                stale_rewake = true;
            }
            // a plain job that owns a scope guard which synchronises with a healthy object: the guard runs while the job unwinds
            12 => {
                callers.push(vec![Op::Desync { o: 0, body: vec![Step::NestedSync { o: 254, body: vec![Step::Touch], id: 0 }, Step::Yield, Step::Panic], id: 0 }]);
                guard_syncs = true;
            }
            // the closure of a sync() panics while somebody else runs it for the caller: the call was made while a pool thread was
            // running the queue (13) or while another sync() caller was (14). The caller must be released and panic in turn.
            13 => callers.push(vec![Op::Desync { o: 0, body: vec![Step::Yield, Step::Yield, Step::Yield], id: 0 }, Op::Sync { o: 0, body: panic_body, id: 0 }]),
            14 => {
                callers.push(vec![Op::Sync { o: 0, body: vec![Step::Yield, Step::Yield, Step::Yield], id: 0 }]);
                callers.push(vec![Op::Yield, Op::Sync { o: 0, body: panic_body, id: 0 }]);
            }
            // a future job that its own awaiting task runs (when the pool is late): it suspends, and panics on the poll that resumes it
            15 => {
                callers.push(vec![Op::FutDesync { o: 0, body: vec![Step::AwaitGate { g: 0 }, Step::Panic], slot: 0, id: 0 }, Op::Await { slot: 0 }]);
                callers.push(vec![Op::Yield, Op::Yield, Op::Yield, Op::OpenGate { g: 0 }]);
            }
            // a plain job that holds a handle on a healthy object panics: the handle is released while unwinding
            _ => callers.push(vec![Op::Desync { o: 0, body: vec![Step::NestedDesync { o: 255, body: vec![Step::Touch], id: 0 }, Step::Yield, Step::Panic], id: 0 }]),
        }
        // operations parked on a closed gate hold their queue: they get the last object to themselves
        let parked = if objects >= 3 { parked } else { vec![] };
        // optionally a second object (o1) loses a pool thread to a panic of its own in the same phase: two dead threads to reap at once
        let second = second && objects as usize >= 3 + if parked.is_empty() { 0 } else { 1 };
        let first_healthy = if second { 2 } else { 1 };
        // (each of the two panicking jobs needs a thread of its own to be certain to run, and die, in this phase)
        let pool = if second { pool.max(2) } else { pool };
        if second {
            let o1 = ((256usize + objects as usize - 1) / objects as usize).min(255) as u8;
            callers.push(vec![Op::Desync { o: o1, body: vec![Step::Touch, Step::Panic], id: 0 }]);
        }
        let nhealthy = objects as usize - first_healthy - if parked.is_empty() { 0 } else { 1 };
        if guard_syncs {
            // the guard synchronises with the first healthy object that is not reserved for parked operations (if there is one)
            if let Some(Op::Desync { body, .. }) = callers[0].get_mut(0) {
                for st in body.iter_mut() {
                    if let Step::NestedSync { o, .. } = st {
                        if *o == 254 {
                            if nhealthy >= 1 {
                                *o = (((first_healthy * 256) + objects as usize - 1) / objects as usize).min(255) as u8;
                            } else {
                                *st = Step::Touch;
                            }
                        }
                    }
                }
            }
        }
        for c in by.iter_mut() {
            for op in c.iter_mut() {
                remap_obj(op, first_healthy, nhealthy, objects as usize);
            }
        }
        callers.extend(by);
        // bystanders parked on a gate that only the final stage opens: future operations on healthy objects that are suspended
        // when the panic happens and whose wake-up is the first thing that happens to their queue afterwards
        for (oraw, kind) in parked.iter() {
            let _ = oraw;
            let o = objects - 1;
            let mut op = match kind {
                // (gate and slot numbers are raw bytes too: 128 scales to gate 1 of 2)
                0 => vec![Op::FutDesync { o, body: vec![Step::AwaitGate { g: 128 }, Step::Touch], slot: 0, id: 0 }, Op::DropFut { slot: 0 }],
                1 => vec![Op::FutDesync { o, body: vec![Step::Touch, Step::AwaitGate { g: 128 }], slot: 0, id: 0 }, Op::PollOnce { slot: 0 }],
                2 => vec![Op::After { o, g: 128, body: vec![Step::Touch], slot: 0, id: 0 }, Op::Detach { slot: 0 }],
                // polled once by its caller, woke itself during that poll: the queue waits for another poll *and* sits in the schedule
                _ => vec![Op::FutDesync { o, body: vec![Step::SelfWake, Step::Touch], slot: 0, id: 0 }, Op::PollOnce { slot: 0 }],
            };
            for x in op.iter_mut() {
                // (object indices in generated programs are raw bytes scaled by the number of objects)
                if let Op::FutDesync { o: oo, .. } | Op::After { o: oo, .. } = x {
                    *oo = ((((*oo as usize) * 256) + objects as usize - 1) / objects as usize).min(255) as u8;
                }
            }
            callers.push(op);
        }
        for c in ph2.iter_mut() {
            for op in c.iter_mut() {
                remap_obj(op, first_healthy, nhealthy, objects as usize);
            }
        }
        // attempts on the panicked object, one caller each so that one failing does not hide the next
        for a in attempts.iter() {
            let kind = match a {
                0 => AttemptKind::Desync,
                1 => AttemptKind::Sync,
                2 => AttemptKind::TrySync,
                3 => AttemptKind::FutDesync,
                _ => AttemptKind::FutSyncAwait,
            };
            ph2.push(vec![Op::Attempt { o: 0, kind, id: 0 }]);
        }
        let cfg = Cfg { pool, objects, gates: 2, streams: 0, level: Level::Desync, unlock_points, spurious: vec![], pre_open: vec![], root_holds: true, double_wake: false, gate_keep_all: false, stream_always_register: false, keep_going_after_early_destroy: false, despawn_without_quiescence: false, unwinding_drops: false, consumer_probe_polls: false, chained_streams: false, stream_self_wakes: 0, guard_syncs, stream_wakes_on_drop: false, payload_bomb, unwinding_attempts };
        let phase0 = Phase { callers, expect_panicked: if second { vec![0, 1] } else { vec![0] }, ..Default::default() };
        let phase1 = Phase { callers: ph2, capacity_probe: true, root: if stale_rewake { vec![RootAct::Rewake { g: 0 }] } else { vec![] }, ..Default::default() };
        if quiet {
            // quiet aftermath: nothing is scheduled after the panic; the final stage opens the gates and everything that was
            // parked on the healthy objects must still finish
            return Case { cfg, phases: vec![phase0], sched };
        }
        Case { cfg, phases: vec![phase0, phase1], sched }
    })
    .boxed()
}

/// C17: callers race to schedule on several objects; between phases the maximum changes
pub fn poolchange_case(p: &Profile) -> BoxedStrategy<Case> {
    let p = p.clone();
    let acts = prop_oneof![
        3 => (0u8..=3).prop_map(|n| vec![RootAct::SetPool { n }, RootAct::Despawn]),
        2 => (0u8..=3).prop_map(|n| vec![RootAct::SetPool { n }]),
        1 => (0u8..=3, prop::bool::ANY).prop_map(|(n, atomic)| vec![RootAct::SetPoolPublic { n, atomic }, RootAct::Despawn]),
        1 => (0u8..=2).prop_map(|n| vec![RootAct::SpawnThread, RootAct::SetPool { n }, RootAct::Despawn]),
        // the public setter on its own: lowered without despawning, raised again, ...
        1 => (0u8..=3, prop::bool::ANY).prop_map(|(n, atomic)| vec![RootAct::SetPoolPublic { n, atomic }]),
        2 => (0u8..=3, 0u8..=3, prop::bool::ANY).prop_map(|(a, b, atomic)| vec![RootAct::SetPoolPublic { n: a, atomic }, RootAct::SetPoolPublic { n: b, atomic: true }]),
    ];
    // callers for a despawn that runs concurrently with them: plain operations only, so that no job of a thread that is being
    // joined can wait for work that needs a pool thread (a resource deadlock of the program, not of the library)
    let mut simple = p.clone();
    simple.opw = OpW { desync: 14, sync: 4, trysync: 1, yield_: 3, futdesync: 0, futsync: 0, after: 0, await_: 0, syncwait: 0, pollonce: 0, dropfut: 0, detach: 0, release: 0, opengate: 0, rewake: 0, waitfor: 0, awaitinline: 0, awaitjoin: 0, ..OpW::default() };
    simple.stepw = StepW { awaitgate: 0, opengate: 0, blockongate: 0, nested_desync: 0, nested_sync: 0, nested_futdesync: 0, awaitfutsync: 0, awaitfutdesync: 0, release: 0, ..StepW::default() };
    simple.lifecycle_pct = 0;
    let simple_callers = vec(vec(op_strategy(&simple), 1..=4), 2..=4);
    (cfg_strategy(&p), phase_strategy(&p), acts, phase_strategy(&p), sched_strategy(p.sched_bytes), prop::bool::ANY, prop::bool::ANY, (prop::bool::weighted(0.35), simple_callers)).prop_map(|(mut cfg, ph0, acts, mut ph1, sched, two, dwq, (late, simple_callers))| {
        cfg.root_holds = true;
        cfg.despawn_without_quiescence = dwq;
        cfg.level = Level::Desync;
        if two {
            // (the same for a raise of the maximum through the public setter that is not forced to be atomic)
            if late && acts.iter().any(|a| matches!(a, RootAct::Despawn | RootAct::SetPoolPublic { atomic: false, .. })) && !acts.iter().any(|a| matches!(a, RootAct::SpawnThread)) {
                ph1.root_late = true;
                ph1.callers = simple_callers;
                ph1.wakers = vec![];
            }
            ph1.root = acts;
            Case { cfg, phases: vec![ph0, ph1], sched }
        } else {
            Case { cfg, phases: vec![ph0], sched }
        }
    })
    .boxed()
}

/// C13: splice `suspend; await-suspend; <non-blocking work>; resume | drop-resumer | (nothing)` into a caller
pub fn suspend_case(p: &Profile) -> BoxedStrategy<Case> {
    let p = p.clone();
    let mut mid = p.clone();
    mid.opw = OpW { desync: 10, trysync: 3, futdesync: 4, yield_: 4, opengate: 2, sync: 0, futsync: 0, after: 1, await_: 0, syncwait: 0, pollonce: 0, dropfut: 1, detach: 1, release: 0, waitfor: 0, suspend: 0, awaitsuspend: 0, resume: 0, dropresumer: 0, ..OpW::default() };
    let mid_ops = vec(op_strategy(&mid), 0..=3);
    (cfg_strategy(&p), phase_strategy(&p), sched_strategy(p.sched_bytes), (any::<u8>(), any::<u8>(), any::<u8>(), mid_ops, 0u8..4)).prop_map(|(cfg, mut phase, sched, (which, pos, o, mid, end))| {
        if !phase.callers.is_empty() {
            let c = (which as usize * phase.callers.len()) >> 8;
            let ops = &mut phase.callers[c];
            let at = (pos as usize * (ops.len() + 1)) >> 8;
            let mut seq = vec![Op::Suspend { o, slot: 255, id: 0 }, Op::AwaitSuspend { slot: 255 }];
            seq.extend(mid);
            match end {
                0 | 1 => seq.push(Op::Resume { slot: 255 }),
                2 => seq.push(Op::DropResumer { slot: 255 }),
                _ => {}
            }
            let tail = ops.split_off(at);
            ops.extend(seq);
            ops.extend(tail);
        }
        Case { cfg, phases: vec![phase], sched }
    })
    .boxed()
}

/// C04: `f = future_desync/future_sync(o){await g}; poll f; drop f` leaves o's queue waiting for a poll that never comes;
/// syncs on o (directly, and from inside a pool job of a lower object) must still return once the gate opens
pub fn abandoned_poll_case(p: &Profile) -> BoxedStrategy<Case> {
    let p = p.clone();
    (cfg_strategy(&p), phase_strategy(&p), sched_strategy(p.sched_bytes), (any::<u8>(), any::<u8>(), any::<u8>(), any::<u8>(), 0u8..4, 0u8..3, any::<u8>())).prop_map(|(mut cfg, mut phase, sched, (c1, c2, p1, p2, kind, syncer, g))| {
        cfg.pool = 1 + (cfg.pool % 2);
        cfg.objects = cfg.objects.max(2);
        cfg.gates = cfg.gates.max(1);
        cfg.level = Level::Desync;
        while phase.callers.len() < 2 {
            phase.callers.push(vec![]);
        }
        let n = phase.callers.len();
        let a = (c1 as usize * n) >> 8;
        let mut b = (c2 as usize * n) >> 8;
        if b == a {
            b = (a + 1) % n;
        }
        // the abandoning caller
        let body = vec![Step::AwaitGate { g }, Step::Touch];
        let make = match kind {
            0 | 1 => Op::FutDesync { o: 255, body, slot: 255, id: 0 },
            2 => Op::FutSync { o: 255, body, slot: 255, id: 0 },
            _ => Op::After { o: 255, g, body: vec![Step::Touch], slot: 255, id: 0 },
        };
        let seq = vec![make, Op::PollOnce { slot: 255 }, Op::DropFut { slot: 255 }];
        let at = (p1 as usize * (phase.callers[a].len() + 1)) >> 8;
        let tail = phase.callers[a].split_off(at);
        phase.callers[a].extend(seq);
        phase.callers[a].extend(tail);
        // the syncing side
        let s_op = match syncer {
            0 => Op::Sync { o: 255, body: vec![Step::Touch], id: 0 },
            1 => Op::Desync { o: 0, body: vec![Step::NestedSync { o: 255, body: vec![Step::Touch], id: 0 }], id: 0 },
            _ => Op::FutDesync { o: 0, body: vec![Step::NestedSync { o: 255, body: vec![], id: 0 }, Step::Touch], slot: 254, id: 0 },
        };
        let at = (p2 as usize * (phase.callers[b].len() + 1)) >> 8;
        phase.callers[b].insert(at, s_op);
        Case { cfg, phases: vec![phase], sched }
    })
    .boxed()
}

/// C11: splice a `pipe_in` (processing function with yields / awaits) into a caller; the producer pushes bursts
pub fn pipein_case(p: &Profile) -> BoxedStrategy<Case> {
    let p = p.clone();
    let pipe_body = vec(prop_oneof![3 => Just(Step::Touch), 5 => Just(Step::Yield), 3 => any::<u8>().prop_map(|g| Step::AwaitGate { g }), 1 => Just(Step::SelfWake)], 0..=3);
    let producer = vec(prop_oneof![6 => Just(POp::Yield), 8 => (1u8..=3).prop_map(|n| POp::Push { n }), 1 => (32u8..=36).prop_map(|n| POp::Push { n }), 8 => Just(POp::PushDuring), 2 => Just(POp::Close)], 1..=7);
    (cfg_strategy(&p), phase_strategy(&p), sched_strategy(p.sched_bytes), (any::<u8>(), any::<u8>(), any::<u8>(), pipe_body, producer)).prop_map(|(mut cfg, mut phase, sched, (which, pos, o, body, producer))| {
        cfg.streams = cfg.streams.max(1);
        cfg.level = Level::Desync;
        if !phase.callers.is_empty() {
            let c = (which as usize * phase.callers.len()) >> 8;
            let ops = &mut phase.callers[c];
            let at = (pos as usize * (ops.len() + 1)) >> 8;
            ops.insert(at, Op::PipeIn { o, s: 0, body, id: 0 });
        }
        if phase.producers.is_empty() {
            phase.producers.push(producer);
        } else {
            phase.producers[0] = producer;
        }
        Case { cfg, phases: vec![phase], sched }
    })
    .boxed()
}

/// C16: splice `pipe; <work>; drop output` into a caller; the input mostly stays open and silent afterwards
pub fn pipedrop_case(p: &Profile, drop_output: bool) -> BoxedStrategy<Case> {
    let p = p.clone();
    let mut mid = p.clone();
    mid.opw = if drop_output {
        OpW { consume: 6, yield_: 6, desync: 4, sync: 2, opengate: 2, trysync: 1, futdesync: 0, futsync: 0, after: 0, await_: 0, syncwait: 0, pollonce: 0, dropfut: 0, detach: 0, release: 0, waitfor: 0, ..OpW::default() }
    } else {
        OpW { consume: 14, consumeinline: 3, setdepth: 3, yield_: 4, desync: 2, sync: 1, opengate: 2, trysync: 0, futdesync: 0, futsync: 0, after: 0, await_: 0, syncwait: 0, pollonce: 0, dropfut: 0, detach: 0, release: 0, waitfor: 0, ..OpW::default() }
    };
    let mid_ops = vec(op_strategy(&mid), if drop_output { 0..=3 } else { 1..=5 });
    let pipe_body = vec(prop_oneof![4 => Just(Step::Touch), 4 => Just(Step::Yield), 3 => any::<u8>().prop_map(|g| Step::AwaitGate { g }), 1 => Just(Step::SelfWake)], 0..=2);
    let producer = if drop_output {
        vec(prop_oneof![3 => Just(POp::Yield), 6 => (1u8..=3).prop_map(|n| POp::Push { n })], 0..=5).boxed()
    } else {
        vec(prop_oneof![4 => Just(POp::Yield), 10 => (1u8..=4).prop_map(|n| POp::Push { n }), 1 => (33u8..=36).prop_map(|n| POp::Push { n }), 6 => Just(POp::PushDuring), 2 => Just(POp::Close)], 1..=6).boxed()
    };
    (cfg_strategy(&p), phase_strategy(&p), sched_strategy(p.sched_bytes), (any::<u8>(), any::<u8>(), any::<u8>(), any::<u8>(), mid_ops, pipe_body, producer)).prop_map(move |(mut cfg, mut phase, sched, (which, pos, o, depth, mid, body, producer))| {
        cfg.streams = cfg.streams.max(1);
        cfg.level = Level::Desync;
        if !phase.callers.is_empty() {
            let c = (which as usize * phase.callers.len()) >> 8;
            let ops = &mut phase.callers[c];
            let at = (pos as usize * (ops.len() + 1)) >> 8;
            // stream 0 and pipe slot 3 are reserved for the spliced pipe
            let mut seq = vec![Op::Pipe { o, s: 0, depth, body, slot: 255, id: 0 }];
            seq.extend(mid.into_iter().map(|m| match m {
                Op::Consume { k, .. } => Op::Consume { slot: 255, k },
                // (C12 is about consumers that read: no tear-down here)
                Op::ConsumeInline { .. } => Op::ConsumeInline { slot: 255, drop_on_wake: false },
                Op::SetDepth { depth, .. } => Op::SetDepth { slot: 255, depth },
                other => other,
            }));
            if drop_output {
                // a quarter of the outputs are not dropped by their owner but by the first wake-up of the (cancelled) task that holds them
                if depth % 4 == 0 {
                    seq.push(Op::ConsumeInline { slot: 255, drop_on_wake: true });
                } else {
                    seq.push(Op::DropPipe { slot: 255 });
                }
            }
            let tail = ops.split_off(at);
            ops.extend(seq);
            ops.extend(tail);
        }
        if phase.producers.is_empty() {
            phase.producers.push(producer);
        } else {
            phase.producers[0] = producer;
        }
        Case { cfg, phases: vec![phase], sched }
    })
    .boxed()
}

// ------------------------------------------------------------------------------------------------
// non-triviality rules

pub fn rule_text(id: &str) -> &'static str {
    match id {
        "C01" => "generated (config, program, schedule) triples run on the real library under the controlled runtime; non-trivial = some operation began while another operation on the same object was invoked-but-unfinished AND a scheduling point was taken inside an operation under such contention; distinct = distinct hash of (normalised program, realised schedule trace)",
        "C02" => "non-trivial = the case contains a pair of operations on one object ordered by real time (call of A returned before B was invoked) where B was invoked before A had started, i.e. the queue itself had to keep the order; distinct by (program, trace) hash",
        "C03" => "non-trivial = pool >= 1, at least one pool thread was created, and at least one asynchronous operation was accepted after a pool thread already existed (threads going dormant / pool at its maximum are reachable); distinct by (program, trace) hash",
        "C04" => "non-trivial = some sync closure ran on a thread other than its caller (background path), or its caller first ran other operations of the object (drain / steal path), or two syncs on one object overlapped in time; distinct by (program, trace) hash",
        "C05" => "non-trivial = the last owner of an object was dropped while at least one accepted operation on it had not finished; distinct by (program, trace) hash",
        "C06" => "non-trivial = a wake-up was delivered (gate opened) to at least one operation that was suspended on that gate; classes report how many scheduling steps separated suspension and wake; distinct by (program, trace) hash",
        "C07" => "non-trivial = a future_desync/after future was awaited while its operation ran on a different thread, or was polled once and left, or was dropped/detached before resolving; distinct by (program, trace) hash",
        "C08" => "non-trivial = a future_sync future was dropped before completing (before its slot or mid-operation) with later operations queued, or was awaited from inside another object's future operation, or was awaited while other operations were queued behind it; distinct by (program, trace) hash",
        "C09" => "non-trivial = at least one try_sync was invoked while another operation on the same object was invoked-but-unfinished; distinct by (program, trace) hash",
        "C10" => "non-trivial = k >= 1 objects were blocked on closed gates (occupying pool threads or suspended) while at least one operation on an independent object was scheduled (in the 'raise' variant: scheduled while the pool was too small, then the maximum was raised through set_max_threads and nothing else was called); distinct by (program, trace) hash",
        "C11" => "non-trivial = at least one stream item arrived while an operation of the consuming object was executing, or the object was destroyed while the stream was still open; distinct by (program, trace) hash",
        "C12" => "non-trivial = the consumer had to wait for an output (polled Pending) or the buffer reached its depth before the consumer read; distinct by (program, trace) hash",
        "C13" => "non-trivial = at least one operation was invoked while a suspension was in force (suspend future resolved, resumer not yet used or dropped); distinct by (program, trace) hash",
        "C14" => "non-trivial = a borrowed-capture sync/try_sync closure ran on another thread or after its caller ran other work of the queue, or the last owner was dropped with work outstanding; distinct by (program, trace) hash",
        "C15" => "non-trivial = the injected panic fired and at least one scheduling attempt on the panicked object plus one operation on a healthy object were executed afterwards; distinct by (program, trace) hash",
        "C16" => "non-trivial = the output stream of a pipe was dropped while its input stream was still open; classes report whether a poll job was executing at that moment; distinct by (program, trace) hash",
        "C17" => "non-trivial = a pool thread was created when the live count was one below the maximum, or the maximum was lowered below the number of live pool threads; distinct by (program, trace) hash",
        _ => "",
    }
}

pub fn nontrivial(id: &str, case: &Case, out: &Outcome) -> bool {
    let s = &out.stats;
    match id {
        "C01" => s.contended_begins >= 1 && s.yields_under_contention >= 1,
        "C02" => s.constrained_pairs_pending >= 1,
        "C03" => case.cfg.pool >= 1 && s.pool_tasks_created >= 1 && s.accepted_with_pool_threads >= 1,
        "C04" => s.sync_ran_elsewhere >= 1 || s.sync_drained_others >= 1,
        "C05" => s.last_owner_drop_with_pending >= 1,
        "C06" => s.gate_wake_while_running >= 1,
        "C07" => s.futures_dropped_unresolved >= 1 || (s.futures_awaited >= 1 && s.contended_begins >= 1),
        "C08" => s.futsync_cancelled >= 1 || (s.futures_awaited >= 1 && s.contended_begins >= 1),
        "C09" => s.trysync_contended >= 1,
        "C10" => case.phases.iter().any(|p| p.must_finish_objs.len() >= 1) && s.accepted_async >= 1,
        "C11" => s.items_while_busy >= 1 || s.last_owner_drop_with_pending >= 1,
        "C12" => s.consumer_pending >= 1 || s.backpressure_hits >= 1,
        "C13" => s.suspended_ops_held >= 1,
        "C14" => s.sync_ran_elsewhere >= 1 || s.sync_drained_others >= 1 || s.last_owner_drop_with_pending >= 1,
        "C15" => s.panics_injected >= 1 && s.attempts_panicked >= 1,
        "C16" => s.pipe_dropped_open >= 1,
        "C17" => s.spawn_at_limit >= 1 || s.max_lowered_below_live >= 1,
        _ => false,
    }
}

pub fn labels(id: &str, case: &Case, out: &Outcome) -> Vec<String> {
    let s = &out.stats;
    let mut l = vec![format!("pool={}", case.cfg.pool), format!("sched={}", match case.sched { Sched::Walk { .. } => "walk", Sched::Pct { .. } => "pct", Sched::Delay { .. } => "delay", Sched::Trace { .. } => "trace" })];
    if case.cfg.level == Level::Queue {
        l.push("level=queue".into());
    }
    let mut flag = |b: bool, name: &str| {
        if b {
            l.push(name.to_string())
        }
    };
    flag(s.contended_begins > 0, "contended-begin");
    flag(s.sync_ran_elsewhere > 0, "sync-ran-on-other-thread");
    flag(s.sync_drained_others > 0, "sync-drained-or-stole");
    flag(s.trysync_busy > 0, "try_sync-busy");
    flag(s.trysync_ok > 0, "try_sync-ok");
    flag(s.gate_wake_while_running > 0, "wake-of-suspended-op");
    flag(s.racy_wakes > 0, "wake-within-8-steps-of-suspension");
    flag(s.futures_dropped_unresolved > 0, "future-dropped-unresolved");
    flag(s.futsync_cancelled > 0, "future_sync-cancelled");
    flag(s.last_owner_drop_with_pending > 0, "last-owner-drop-with-pending-work");
    flag(s.spawn_at_limit > 0, "spawn-at-limit");
    flag(s.items_while_busy > 0, "item-arrived-while-busy");
    flag(s.backpressure_hits > 0, "backpressure-reached");
    flag(s.consumer_pending > 0, "consumer-waited");
    flag(s.suspended_ops_held > 0, "op-invoked-during-suspension");
    flag(s.stale_wakes > 0, "stale-wakers-fired-again");
    flag(s.pipe_dropped_while_job > 0, "pipe-dropped-while-poll-job-active");
    flag(out.status == vsched::rt::Status::StepBound, "step-bound");
    flag(s.self_wakes > 0, "self-wake-during-poll");
    flag(s.syncs_from_destructors_while_unwinding > 0, "sync-from-a-destructor-while-unwinding");
    flag(s.depth_changes > 0, "back-pressure-depth-changed-later");
    flag(s.inline_polls > 0, "inline-task-polled-from-a-waker");
    flag(s.stream_self_wakes > 0, "stream-woke-itself-during-poll_next");
    flag(s.chained_closes > 0, "stream-ended-by-drop-of-another-pipe");
    flag(s.concurrent_despawns > 0, "despawn-concurrent-with-scheduling-calls");
    flag(s.concurrent_raises > 0, "maximum-raised-concurrently-with-scheduling-calls");
    flag(s.stream_drop_wakes > 0, "stream-woke-its-waker-from-its-destructor");
    flag(s.consumer_probe_pending > 0, "consumer-polled-with-two-wakers");
    flag(s.unwinding_last_owner_drops > 0, "last-owner-dropped-while-unwinding");
    flag(case.cfg.unwinding_drops, "unwinding-drops");
    flag(case.cfg.payload_bomb && s.panics_injected > 0, "panic-payload-with-panicking-destructor");
    flag(case.cfg.unwinding_attempts && s.attempts_panicked > 0, "attempt-made-by-a-destructor-while-unwinding");
    flag(case.phases.iter().any(|p| p.root.iter().any(|a| matches!(a, RootAct::SetPoolPublic { .. }))), "max-changed-through-public-api");
    let _ = id;
    l
}
