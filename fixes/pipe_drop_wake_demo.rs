extern crate desync;
extern crate futures;
use desync::*;
use futures::prelude::*;
use futures::task::{Context, Poll, Waker};
use std::pin::Pin;
use std::sync::atomic::{AtomicBool, Ordering};
use std::sync::mpsc;
use std::sync::*;
use std::thread;
use std::time::Duration;

/// A stream that ends when told to, remembers the last waker it was given and wakes it when it is dropped
/// (the way a channel tells its other side that the receiver has gone away)
struct WakesOnDrop {
    waker: Option<Waker>,
    ended: Arc<AtomicBool>,
    first_waker: Arc<Mutex<Option<Waker>>>,
    in_last_poll: mpsc::Sender<()>,
}
impl Stream for WakesOnDrop {
    type Item = u32;
    fn poll_next(mut self: Pin<&mut Self>, cx: &mut Context<'_>) -> Poll<Option<u32>> {
        self.waker = Some(cx.waker().clone());
        if self.ended.load(Ordering::SeqCst) {
            // give the owner of the Desync the time to start dropping it while this poll is in progress
            self.in_last_poll.send(()).ok();
            thread::sleep(Duration::from_millis(300));
            Poll::Ready(None)
        } else {
            *self.first_waker.lock().unwrap() = Some(cx.waker().clone());
            Poll::Pending
        }
    }
}
impl Drop for WakesOnDrop {
    fn drop(&mut self) {
        if let Some(w) = self.waker.take() { w.wake(); }
    }
}

#[test]
fn input_stream_that_wakes_its_waker_when_dropped() {
    let (done_tx, done_rx) = mpsc::channel();
    thread::spawn(move || {
        let ended = Arc::new(AtomicBool::new(false));
        let first_waker = Arc::new(Mutex::new(None));
        let (tx, rx) = mpsc::channel();
        let d = Arc::new(Desync::new(0u32));
        pipe_in(Arc::clone(&d), WakesOnDrop { waker: None, ended: Arc::clone(&ended), first_waker: Arc::clone(&first_waker), in_last_poll: tx }, |_, _| async {}.boxed());
        d.sync(|_| {});
        while first_waker.lock().unwrap().is_none() { thread::yield_now(); }
        // the stream ends: its pipe is woken and polls it on the Desync ...
        ended.store(true, Ordering::SeqCst);
        first_waker.lock().unwrap().take().unwrap().wake();
        rx.recv().unwrap();
        // ... and while that poll is in progress the last owner lets go of the Desync (which waits for the poll to finish)
        drop(d);
        done_tx.send(()).ok();
    });
    assert!(done_rx.recv_timeout(Duration::from_secs(10)).is_ok(), "dropping the Desync never returned: the pipe's job is stuck");
}
