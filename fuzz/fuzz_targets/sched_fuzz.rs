//! Coverage-guided search over (configuration, program, schedule) triples.
//!
//! The libFuzzer input is used verbatim as the entropy of the same proptest strategies the `dv` checks use
//! (proptest's pass-through RNG), so every input decodes to a valid case; coverage feedback comes from the
//! instrumented `desync` crate running on the controlled runtime (one deterministic, single-threaded
//! execution per input). The oracle is inside the target: any violation of the selected property
//! (DV_FUZZ_PROP, default: every property) aborts with the violation text.
#![no_main]
use dv::{gen, interp, norm, profiles};
use libfuzzer_sys::fuzz_target;
use proptest::strategy::{Strategy, ValueTree};
use proptest::test_runner::{Config, RngAlgorithm, TestRng, TestRunner};
use std::sync::OnceLock;

struct Setup {
    prop: String,
    profile_id: String,
}

static SETUP: OnceLock<Setup> = OnceLock::new();

fn setup() -> &'static Setup {
    SETUP.get_or_init(|| {
        let prop = std::env::var("DV_FUZZ_PROP").unwrap_or_else(|_| "ALL".to_string());
        let profile_id = if prop == "ALL" { std::env::var("DV_FUZZ_PROFILE").unwrap_or_else(|_| "C01".to_string()) } else { prop.clone() };
        Setup { prop, profile_id }
    })
}

fuzz_target!(|data: &[u8]| {
    if data.len() < 8 {
        return;
    }
    let s = setup();
    let prof = profiles::profile(&s.profile_id);
    let allow_panic = prof.shape == gen::Shape::Panic;
    let strat = gen::case_strategy(&prof);
    let raw = match dv::decode::case_from_bytes(&prof, data) {
        Some(c) => c,
        None => {
            // multi-phase shapes: the bytes only seed the proptest strategy (no structure-preserving mutation)
            let mut seed = [0u8; 32];
            let mut x: u64 = 0xcbf2_9ce4_8422_2325;
            for (i, b) in data.iter().enumerate() {
                x = (x ^ *b as u64).wrapping_mul(0x100_0000_01B3);
                seed[i % 32] ^= (x >> 32) as u8;
            }
            let rng = TestRng::from_seed(RngAlgorithm::ChaCha, &seed);
            let mut runner = TestRunner::new_with_rng(Config::default(), rng);
            match strat.new_tree(&mut runner) {
                Ok(t) => t.current(),
                Err(_) => return,
            }
        }
    };
    let case = norm::normalize(&raw, &norm::NormOpts { allow_panic });
    if case.op_count() == 0 {
        return;
    }
    let out = interp::run_case(&case, &interp::RunOpts::default());
    for v in out.violations.iter() {
        if v.prop == "HARNESS" || v.prop == "AMBIG" || v.prop == "SATURATED" {
            continue;
        }
        if s.prop == "ALL" || v.prop == s.prop {
            eprintln!("{}", case.pretty());
            eprintln!("DV-VIOLATION property={} clause={} {}", v.prop, v.clause, v.detail);
            std::process::abort();
        }
    }
});
