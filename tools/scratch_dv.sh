#!/bin/bash
# Pre-screening helper: builds a scratch copy of the dv harness against a desync source tree OTHER than /repo
# (e.g. a sub-agent's worktree with a candidate change applied), so that candidates can be tried while /repo is
# busy. Registered checks never use this: they always build from /repo.
# usage: tools/scratch_dv.sh <desync-src-tree> <scratch-dir> [props...]   (env TIER, VERIF_SEED)
set -u
SRC=$(cd "$1" && pwd -P); OUT="$2"; shift 2
V=$(cd "$(dirname "$0")/.." && pwd -P)
mkdir -p "$OUT/home"
rsync -a --delete --exclude target "$V/Cargo.toml" "$V/Cargo.lock" "$V/vsched" "$V/dv" "$V/desync-verif" "$OUT/"
sed -i "s#path = \"[^\"]*/src/lib.rs\"#path = \"$SRC/src/lib.rs\"#" "$OUT/desync-verif/Cargo.toml"
[ -d "$OUT/target" ] || cp -r "$V/target" "$OUT/target"
( cd "$OUT" && CARGO_NET_OFFLINE=true cargo build --release --offline -p dv 2>&1 | grep -E "^error" -A5 | head -20 )
[ -x "$OUT/target/release/dv" ] || { echo "BUILD-FAILED"; exit 2; }
cp "$V/known_findings.jsonl" "$OUT/home/"
for q in "$@"; do
  out=$(cd "$OUT" && DV_HOME="$OUT/home" ./target/release/dv check $q --tier ${TIER:-quick} 2>&1); rc=$?
  summ=$(echo "$out" | grep -E "^C[0-9]+ (quick|thorough)" | sed -E 's/, [0-9]+ step-bound.*other oracles/ other/; s/, [0-9.]+s \(.*//')
  viol=$(echo "$out" | grep -E "^  C[0-9]+ " | head -1 | cut -c1-160)
  echo "check=$q exit=$rc | $summ | $viol"
done
