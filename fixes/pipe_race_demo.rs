extern crate desync;
extern crate futures;
use desync::*;
use futures::prelude::*;
use futures::task::{Context, Poll, Waker};
use std::pin::Pin;
use std::sync::atomic::{AtomicBool, AtomicUsize, Ordering};
use std::sync::*;
use std::thread;
use std::time::{Duration, Instant};

/// A stream that never yields anything and hands its waker to whoever wants it
struct Silent(Arc<Mutex<Option<Waker>>>);
impl Stream for Silent {
    type Item = u32;
    fn poll_next(self: Pin<&mut Self>, cx: &mut Context<'_>) -> Poll<Option<u32>> {
        *self.0.lock().unwrap() = Some(cx.waker().clone());
        Poll::Pending
    }
}

#[test]
fn waking_a_pipe_from_a_job_of_its_own_desync_while_the_last_owner_goes_away() {
    let deadline = Instant::now() + Duration::from_secs(40);
    let finished = Arc::new(AtomicUsize::new(0));
    let mut started = 0usize;
    for _round in 0..200_000 {
        if Instant::now() > deadline { break; }
        let slot = Arc::new(Mutex::new(None));
        let d = Arc::new(Desync::new(0u32));
        pipe_in(Arc::clone(&d), Silent(Arc::clone(&slot)), |_, _| async {}.boxed());
        // wait until the pipe has polled its stream once
        d.sync(|_| {});
        let t0 = Instant::now();
        while slot.lock().unwrap().is_none() { if t0.elapsed() > Duration::from_secs(5) { panic!("pipe never polled"); } thread::yield_now(); }
        let go = Arc::new(AtomicBool::new(false));
        let go2 = Arc::clone(&go);
        let slot2 = Arc::clone(&slot);
        let fin = Arc::clone(&finished);
        // a job of the Desync wakes the pipe (as a job that sends to the pipe's own channel would)
        d.desync(move |_| {
            go2.store(true, Ordering::SeqCst);
            for _ in 0..3 {
                let w = slot2.lock().unwrap().take();
                if let Some(w) = w { w.wake(); }
            }
            fin.fetch_add(1, Ordering::SeqCst);
        });
        started += 1;
        // ... while the last owner goes away
        while !go.load(Ordering::SeqCst) { std::hint::spin_loop(); }
        drop(d);
    }
    // every job must have finished (a job that deadlocks in Desync::drop on its own queue never does)
    let t0 = Instant::now();
    while finished.load(Ordering::SeqCst) < started {
        if t0.elapsed() > Duration::from_secs(10) {
            panic!("{} of {} jobs never finished: a pool thread is stuck", started - finished.load(Ordering::SeqCst), started);
        }
        thread::sleep(Duration::from_millis(10));
    }
}
