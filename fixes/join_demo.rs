extern crate desync;
extern crate futures;
use desync::*;
use desync::scheduler::*;
use futures::channel::oneshot;
use futures::executor;
use futures::prelude::*;
use std::sync::mpsc;
use std::thread;
use std::time::Duration;

#[test]
fn one_task_awaits_two_futures_of_one_desync_with_no_pool_thread() {
    let (done_tx, done_rx) = mpsc::channel();
    thread::spawn(move || {
        let sch = scheduler();
        sch.set_max_threads(0);
        sch.despawn_threads_if_overloaded();

        let d = Desync::new(0u32);
        let (tx, rx) = oneshot::channel::<u32>();

        // the first operation waits for an outside event, the second one is queued behind it
        let mut first  = d.after(rx, |val, v| { *val += v.unwrap_or(0); *val });
        // polled once by hand: the polling task starts running the queue, which parks on the first operation
        // (a throw-away poll, as `now_or_never()` or a select! in some other task would perform: its waker is not the one used later)
        assert!(first.poll_unpin(&mut std::task::Context::from_waker(futures::task::noop_waker_ref())).is_pending());
        let second = d.future_desync(|val| async move { *val += 1; *val }.boxed());

        // the event arrives, then one task awaits both futures (the later operation's future first)
        tx.send(10).unwrap();
        let (b, a) = executor::block_on(future::join(second, first));
        assert_eq!((a, b), (Ok(10), Ok(11)));
        done_tx.send(()).ok();
    });
    assert!(done_rx.recv_timeout(Duration::from_secs(10)).is_ok(), "join(second, first) never completed: nobody ran the queue after the first future handed it back");
}
