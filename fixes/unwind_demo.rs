extern crate desync;
use desync::*;
use std::sync::*;
use std::thread;
use std::panic;

/// A guard that updates a shared Desync when it goes out of scope (a common clean-up pattern)
struct Guard(Arc<Desync<u32>>);
impl Drop for Guard {
    fn drop(&mut self) {
        self.0.sync(|v| *v += 1);
    }
}

#[test]
fn sync_from_destructor_during_unwinding_does_not_poison() {
    let shared = Arc::new(Desync::new(0u32));
    let s2 = Arc::clone(&shared);
    let t = thread::spawn(move || {
        let _g = Guard(s2);
        panic!("unrelated panic in the thread (expected)");
    });
    assert!(t.join().is_err());
    // no operation on `shared` has panicked: it must still be usable
    let r = panic::catch_unwind(panic::AssertUnwindSafe(|| shared.sync(|v| *v)));
    match r {
        Ok(v) => assert_eq!(v, 1),
        Err(_) => { std::mem::forget(shared); panic!("healthy Desync was poisoned although none of its operations panicked"); }
    }
}

#[test]
fn drop_during_unwinding_runs_pending_jobs_without_poisoning_other_objects() {
    // no pool threads: the pending job is run by the thread that drops the Desync
    desync::scheduler::scheduler().set_max_threads(0);
    desync::scheduler::scheduler().despawn_threads_if_overloaded();
    let other = Arc::new(Desync::new(0u32));
    let t = {
        let other = Arc::clone(&other);
        thread::spawn(move || {
            let owned = Desync::new(0u32);
            let o2 = Arc::clone(&other);
            owned.desync(move |_| { o2.sync(|v| *v += 1); });
            let _owned = owned;
            panic!("unrelated panic (expected)");
        })
    };
    assert!(t.join().is_err());
    let r = panic::catch_unwind(panic::AssertUnwindSafe(|| other.sync(|v| *v)));
    match r {
        Ok(v) => assert_eq!(v, 1),
        Err(_) => { std::mem::forget(other); panic!("healthy Desync was poisoned although none of its operations panicked"); }
    }
}
