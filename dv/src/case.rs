//! The generated case: configuration, program (phases of caller/waker/producer op lists) and schedule.
//! Everything here is plain data: it is what proptest generates and shrinks and what a replay file stores.

use serde::{Deserialize, Serialize};

pub type OpId = usize;

#[derive(Clone, Copy, Debug, PartialEq, Eq, Serialize, Deserialize)]
pub enum Level {
    /// `Desync<T>` API
    Desync,
    /// `desync::scheduler::*` functions on a bare `JobQueue`
    Queue,
}

#[derive(Clone, Debug, PartialEq, Serialize, Deserialize)]
pub struct Cfg {
    /// maximum number of pool threads at the start
    pub pool: u8,
    pub objects: u8,
    pub gates: u8,
    pub streams: u8,
    pub level: Level,
    /// scheduling point before every mutex release
    pub unlock_points: bool,
    /// global steps at which a spurious wake-up of a parked / condvar-waiting task is injected
    pub spurious: Vec<u16>,
    /// gates that are open from the start
    pub pre_open: Vec<u8>,
    /// root keeps a handle on every object until the final stage
    pub root_holds: bool,
    /// gates wake their wakers twice
    pub double_wake: bool,
    /// gates remember every waker they are given and wake them all (otherwise an await keeps only its latest waker, like a oneshot)
    #[serde(default)]
    pub gate_keep_all: bool,
    /// C14: when a value is destroyed while accepted work is pending, record it and keep running so that a later
    /// use of the freed value is observed as such
    #[serde(default)]
    pub keep_going_after_early_destroy: bool,
    /// input streams store the waker on every poll, also when they return an item (otherwise only when pending)
    #[serde(default)]
    pub stream_always_register: bool,
    /// C17: despawn while pool jobs may still be running (gates are opened first, so they all finish)
    #[serde(default)]
    pub despawn_without_quiescence: bool,
    /// handles released by caller threads are dropped while the caller is unwinding from a panic of its own
    /// (Desync::drop then takes its non-panicking path)
    #[serde(default)]
    pub unwinding_drops: bool,
    /// pipe consumers poll the output stream once with a throw-away waker before they wait for it with their own
    /// (now_or_never() followed by an await): the stream must wake the waker of the latest poll
    #[serde(default)]
    pub consumer_probe_polls: bool,
    /// the input stream of pipe s owns the only sender of stream s+1: when the library drops stream s, stream s+1 ends
    /// (its pipe is woken from inside whatever context performs the drop)
    #[serde(default)]
    pub chained_streams: bool,
    /// input streams are cooperative: the first `n` times one of them has nothing to deliver it wakes its own waker from
    /// inside poll_next (and returns Pending), so the pipe is woken while it is still polling
    #[serde(default)]
    pub stream_self_wakes: u8,
    /// the nested sync steps of plain jobs are performed by scope guards: at the end of the job, or while it unwinds
    /// from a panic (a destructor that synchronises with another object)
    #[serde(default)]
    pub guard_syncs: bool,
    /// input streams wake the last waker they were given when they are dropped (as a channel does whose other side
    /// wants to know that the receiver has gone)
    #[serde(default)]
    pub stream_wakes_on_drop: bool,
    /// injected panics carry a payload whose destructor panics in turn when a pool thread drops it (a pool thread that
    /// catches a job's panic and discards the payload dies there, after the job's own panic has been dealt with)
    #[serde(default)]
    pub payload_bomb: bool,
    /// C15: the scheduling attempts on the panicked object are made by destructors while their caller unwinds from a panic
    /// of its own (each under its own catch_unwind): `thread::panicking()` is true throughout the call
    #[serde(default)]
    pub unwinding_attempts: bool,
}

#[derive(Clone, Copy, Debug, PartialEq, Eq, Serialize, Deserialize)]
pub enum Ev {
    Ret,
    End,
}

#[derive(Clone, Copy, Debug, PartialEq, Eq, Serialize, Deserialize)]
pub enum AttemptKind {
    Desync,
    Sync,
    TrySync,
    FutDesync,
    FutSyncAwait,
}

/// A step inside the closure / future of an operation
#[derive(Clone, Debug, PartialEq, Serialize, Deserialize)]
pub enum Step {
    Touch,
    Yield,
    NestedDesync { o: u8, body: Vec<Step>, id: OpId },
    NestedSync { o: u8, body: Vec<Step>, id: OpId },
    NestedFutDesync { o: u8, body: Vec<Step>, id: OpId },
    /// drop the handle this job holds on object `o`
    Release { o: u8 },
    OpenGate { g: u8 },
    /// block the running thread until the gate is open (plain jobs)
    BlockOnGate { g: u8 },
    /// future bodies only
    AwaitGate { g: u8 },
    /// future bodies only: create a future_sync on another object and await it
    AwaitFutSync { o: u8, body: Vec<Step>, id: OpId },
    /// future bodies only: create a future_desync on another object and await it
    AwaitFutDesync { o: u8, body: Vec<Step>, id: OpId },
    Panic,
    /// future bodies only: wake the own waker during the poll and return Pending once (a yield-style future)
    SelfWake,
}

#[derive(Clone, Debug, PartialEq, Serialize, Deserialize)]
pub enum Op {
    Nop,
    Yield,
    Desync { o: u8, body: Vec<Step>, id: OpId },
    Sync { o: u8, body: Vec<Step>, id: OpId },
    /// `probe`: run the call without pre-emption and compare the queue's Debug text before/after a Busy answer
    TrySync {
        o: u8,
        body: Vec<Step>,
        #[serde(default)]
        probe: bool,
        id: OpId,
    },
    FutDesync { o: u8, body: Vec<Step>, slot: u8, id: OpId },
    FutSync { o: u8, body: Vec<Step>, slot: u8, id: OpId },
    After { o: u8, g: u8, body: Vec<Step>, slot: u8, id: OpId },
    Await { slot: u8 },
    SyncWait { slot: u8 },
    PollOnce { slot: u8 },
    DropFut { slot: u8 },
    Detach { slot: u8 },
    Release { o: u8 },
    OpenGate { g: u8 },
    /// fire every waker ever registered with gate g again (stale wake-ups)
    Rewake { g: u8 },
    /// wait until op `idx` of (lower-numbered) caller `caller` has returned / ended
    WaitFor { caller: u8, idx: u8, ev: Ev },
    Suspend { o: u8, slot: u8, id: OpId },
    /// await the suspend future in `slot` (yields the resumer, kept in the slot)
    AwaitSuspend { slot: u8 },
    Resume { slot: u8 },
    DropResumer { slot: u8 },
    PipeIn { o: u8, s: u8, body: Vec<Step>, id: OpId },
    Pipe { o: u8, s: u8, depth: u8, body: Vec<Step>, slot: u8, id: OpId },
    Consume { slot: u8, k: u8 },
    /// hand the future in the slot to a task that has no thread of its own: whoever calls its waker polls it, right there
    AwaitInline { slot: u8 },
    /// One task awaits two futures with one waker (a join): both are polled, a first, every time the task is woken
    AwaitJoin { a: u8, b: u8 },
    /// the same for the output stream of a pipe; `drop_on_wake`: the first wake-up tears the task down instead (the stream is
    /// dropped from inside the waker, as an executor does with a cancelled task)
    ConsumeInline { slot: u8, drop_on_wake: bool },
    DropPipe { slot: u8 },
    /// change the back-pressure depth of an existing pipe (items may already be buffered)
    SetDepth { slot: u8, depth: u8 },
    /// a scheduling attempt under catch_unwind (used on panicked objects)
    Attempt { o: u8, kind: AttemptKind, id: OpId },
}

/// Ops of waker tasks (never block)
#[derive(Clone, Debug, PartialEq, Serialize, Deserialize)]
pub enum WOp {
    Yield,
    Open { g: u8 },
    Rewake { g: u8 },
}

/// Ops of stream producer tasks (never block)
#[derive(Clone, Debug, PartialEq, Serialize, Deserialize)]
pub enum POp {
    Yield,
    Push { n: u8 },
    Close,
    /// push one item while an operation of the consuming object is executing (waits for that moment)
    PushDuring,
}

#[derive(Clone, Debug, PartialEq, Serialize, Deserialize)]
pub enum RootAct {
    /// verif_set_max_threads
    SetPool { n: u8 },
    /// public set_max_threads (spawns eagerly)
    /// `atomic`: the call runs without pre-emption. set_max_threads() loops while an idle thread answers, so a schedule that
    /// always lets the idle thread answer first never lets it return (cut by the step bound as inconclusive otherwise)
    SetPoolPublic {
        n: u8,
        #[serde(default)]
        atomic: bool,
    },
    SpawnThread,
    Despawn,
    OpenGate { g: u8 },
    /// fire every waker gate g has ever been given again (stale wake-ups, as the Waker contract allows)
    Rewake { g: u8 },
}

#[derive(Clone, Debug, PartialEq, Serialize, Deserialize, Default)]
pub struct Phase {
    pub root: Vec<RootAct>,
    pub callers: Vec<Vec<Op>>,
    pub wakers: Vec<Vec<WOp>>,
    /// producers[i] feeds stream i (streams are global to the case)
    pub producers: Vec<Vec<POp>>,
    /// objects whose operations must all have completed at the quiescence that ends this phase
    /// although some gates are still closed (C10)
    pub must_finish_objs: Vec<u8>,
    /// C15: after this phase, these objects are expected to be panicked
    pub expect_panicked: Vec<u8>,
    /// C15: capacity probe at the start of this phase
    pub capacity_probe: bool,
    /// C17: the `Despawn` actions of this phase run after its callers have been started, i.e. concurrently with their
    /// scheduling calls (all other root actions still run first, at the quiescence between the phases)
    #[serde(default)]
    pub root_late: bool,
}

#[derive(Clone, Copy, Debug, PartialEq, Eq, Serialize, Deserialize)]
pub enum Tail {
    Stay,
    RoundRobin,
}

#[derive(Clone, Debug, PartialEq, Serialize, Deserialize)]
pub enum Sched {
    /// random walk: byte < stay keeps the current task, otherwise picks among the runnable tasks
    Walk { stay: u8, bytes: Vec<u8>, tail: Tail },
    /// priority based (PCT): highest priority runnable task runs; change points lower a priority
    Pct { prio: Vec<u8>, changes: Vec<(u8, u16, u8)> },
    /// run-to-block with a few forced pre-emptions at (task, local step) -> pick
    Delay { points: Vec<(u8, u16, u8)>, rr: bool },
    /// replay of a realised trace (task id per multi-candidate decision)
    Trace { choices: Vec<u8> },
}

#[derive(Clone, Debug, PartialEq, Serialize, Deserialize)]
pub struct Case {
    pub cfg: Cfg,
    pub phases: Vec<Phase>,
    pub sched: Sched,
}

fn assign_steps(steps: &mut [Step], next: &mut OpId) {
    for s in steps.iter_mut() {
        match s {
            Step::NestedDesync { body, id, .. }
            | Step::NestedSync { body, id, .. }
            | Step::NestedFutDesync { body, id, .. }
            | Step::AwaitFutSync { body, id, .. }
            | Step::AwaitFutDesync { body, id, .. } => {
                *id = *next;
                *next += 1;
                assign_steps(body, next);
            }
            _ => {}
        }
    }
}

impl Case {
    /// Gives every operation (including nested ones) a unique id; returns the number of ids.
    pub fn assign_ids(&mut self) -> usize {
        let mut next = 0;
        for ph in self.phases.iter_mut() {
            for c in ph.callers.iter_mut() {
                for op in c.iter_mut() {
                    match op {
                        Op::Desync { body, id, .. }
                        | Op::Sync { body, id, .. }
                        | Op::TrySync { body, id, .. }
                        | Op::FutDesync { body, id, .. }
                        | Op::FutSync { body, id, .. }
                        | Op::After { body, id, .. }
                        | Op::PipeIn { body, id, .. }
                        | Op::Pipe { body, id, .. } => {
                            *id = next;
                            next += 1;
                            assign_steps(body, &mut next);
                        }
                        Op::Suspend { id, .. } | Op::Attempt { id, .. } => {
                            *id = next;
                            next += 1;
                        }
                        _ => {}
                    }
                }
            }
        }
        next
    }

    pub fn op_count(&self) -> usize {
        self.phases.iter().map(|p| p.callers.iter().map(|c| c.iter().filter(|o| !matches!(o, Op::Nop)).count()).sum::<usize>()).sum()
    }
}

fn fmt_steps(steps: &[Step]) -> String {
    let mut v = vec![];
    for s in steps {
        v.push(match s {
            Step::Touch => "T".to_string(),
            Step::Yield => "Y".to_string(),
            Step::NestedDesync { o, body, id } => format!("desync#{}(o{}){{{}}}", id, o, fmt_steps(body)),
            Step::NestedSync { o, body, id } => format!("sync#{}(o{}){{{}}}", id, o, fmt_steps(body)),
            Step::NestedFutDesync { o, body, id } => format!("fdesync#{}(o{}){{{}}}", id, o, fmt_steps(body)),
            Step::Release { o } => format!("release(o{})", o),
            Step::OpenGate { g } => format!("open(g{})", g),
            Step::BlockOnGate { g } => format!("block_on(g{})", g),
            Step::AwaitGate { g } => format!("await(g{})", g),
            Step::SelfWake => "self-wake".to_string(),
            Step::AwaitFutSync { o, body, id } => format!("await fsync#{}(o{}){{{}}}", id, o, fmt_steps(body)),
            Step::AwaitFutDesync { o, body, id } => format!("await fdesync#{}(o{}){{{}}}", id, o, fmt_steps(body)),
            Step::Panic => "PANIC".to_string(),
        });
    }
    v.join(" ")
}

pub fn fmt_op(op: &Op) -> String {
    match op {
        Op::Nop => "nop".into(),
        Op::Yield => "yield".into(),
        Op::Desync { o, body, id } => format!("#{} o{}.desync{{{}}}", id, o, fmt_steps(body)),
        Op::Sync { o, body, id } => format!("#{} o{}.sync{{{}}}", id, o, fmt_steps(body)),
        Op::TrySync { o, body, probe, id } => format!("#{} o{}.try_sync{}{{{}}}", id, o, if *probe { "[probe]" } else { "" }, fmt_steps(body)),
        Op::FutDesync { o, body, slot, id } => format!("#{} f{}=o{}.future_desync{{{}}}", id, slot, o, fmt_steps(body)),
        Op::FutSync { o, body, slot, id } => format!("#{} f{}=o{}.future_sync{{{}}}", id, slot, o, fmt_steps(body)),
        Op::After { o, g, body, slot, id } => format!("#{} f{}=o{}.after(g{}){{{}}}", id, slot, o, g, fmt_steps(body)),
        Op::Await { slot } => format!("await f{}", slot),
        Op::SyncWait { slot } => format!("f{}.sync()", slot),
        Op::PollOnce { slot } => format!("poll f{}", slot),
        Op::DropFut { slot } => format!("drop f{}", slot),
        Op::Detach { slot } => format!("f{}.detach()", slot),
        Op::Release { o } => format!("release o{}", o),
        Op::OpenGate { g } => format!("open g{}", g),
        Op::Rewake { g } => format!("rewake g{}", g),
        Op::WaitFor { caller, idx, ev } => format!("waitfor(c{}[{}].{:?})", caller, idx, ev),
        Op::Suspend { o, slot, id } => format!("#{} f{}=suspend(o{})", id, slot, o),
        Op::AwaitSuspend { slot } => format!("await-suspend f{}", slot),
        Op::Resume { slot } => format!("resume f{}", slot),
        Op::DropResumer { slot } => format!("drop-resumer f{}", slot),
        Op::PipeIn { o, s, body, id } => format!("#{} pipe_in(o{}, s{}){{{}}}", id, o, s, fmt_steps(body)),
        Op::Pipe { o, s, depth, body, slot, id } => format!("#{} p{}=pipe(o{}, s{}, depth {}){{{}}}", id, slot, o, s, depth, fmt_steps(body)),
        Op::Consume { slot, k } => format!("consume p{} x{}", slot, k),
        Op::AwaitInline { slot } => format!("await-inline f{}", slot),
        Op::AwaitJoin { a, b } => format!("await join(f{}, f{})", a, b),
        Op::SetDepth { slot, depth } => format!("set-depth p{} {}", slot, depth),
        Op::ConsumeInline { slot, drop_on_wake } => format!("consume-inline p{}{}", slot, if *drop_on_wake { " (dropped by its first wake-up)" } else { "" }),
        Op::DropPipe { slot } => format!("drop p{}", slot),
        Op::Attempt { o, kind, id } => format!("#{} attempt {:?}(o{})", id, kind, o),
    }
}

impl Case {
    /// Human-readable program text (used in evidence samples and reports)
    pub fn pretty(&self) -> String {
        let mut s = String::new();
        s.push_str(&format!(
            "cfg: pool={} objects={} gates={} streams={} level={:?} unlock_points={} spurious={:?} pre_open={:?} root_holds={} double_wake={} gate_keep_all={} payload_bomb={} unwinding_attempts={}\n",
            self.cfg.pool, self.cfg.objects, self.cfg.gates, self.cfg.streams, self.cfg.level, self.cfg.unlock_points, self.cfg.spurious, self.cfg.pre_open, self.cfg.root_holds, self.cfg.double_wake, self.cfg.gate_keep_all, self.cfg.payload_bomb, self.cfg.unwinding_attempts
        ));
        for (pi, ph) in self.phases.iter().enumerate() {
            s.push_str(&format!("phase {}: root={:?} must_finish={:?} expect_panicked={:?} probe={}\n", pi, ph.root, ph.must_finish_objs, ph.expect_panicked, ph.capacity_probe));
            for (ci, c) in ph.callers.iter().enumerate() {
                let ops: Vec<String> = c.iter().filter(|o| !matches!(o, Op::Nop)).map(fmt_op).collect();
                s.push_str(&format!("  caller {}: {}\n", ci, ops.join("; ")));
            }
            for (wi, wk) in ph.wakers.iter().enumerate() {
                s.push_str(&format!("  waker {}: {:?}\n", wi, wk));
            }
            for (si, pr) in ph.producers.iter().enumerate() {
                if !pr.is_empty() {
                    s.push_str(&format!("  producer s{}: {:?}\n", si, pr));
                }
            }
        }
        s.push_str(&format!("sched: {}\n", self.sched.summary()));
        s
    }
}

impl Sched {
    pub fn summary(&self) -> String {
        match self {
            Sched::Walk { stay, bytes, tail } => format!("Walk(stay={}, {} bytes, tail={:?})", stay, bytes.len(), tail),
            Sched::Pct { prio, changes } => format!("Pct(prio={:?}, changes={:?})", prio, changes),
            Sched::Delay { points, rr } => format!("Delay(points={:?}, rr={})", points, rr),
            Sched::Trace { choices } => format!("Trace({} choices)", choices.len()),
        }
    }
}
