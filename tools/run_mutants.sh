#!/bin/bash
# Applies each sensitivity mutant to /repo, runs the quick check of its property (and prints which other
# properties' oracles also fired), reverts. usage: tools/run_mutants.sh [name-filter]
cd /verif
filter="${1:-}"
export DV_HOME=/var/tmp/dv-mut-home
python3 - "$filter" <<'PY'
import json,subprocess,sys,os,shutil,re
flt=sys.argv[1]
idx=json.load(open('/verif/mutants/index.json'))
res=[]
for m in idx:
    if flt and flt not in m['name']: continue
    subprocess.check_call(["git","-C","/repo","checkout","--","."])
    r=subprocess.run(["git","-C","/repo","apply","/verif/mutants/%s.diff"%m['name']],capture_output=True,text=True)
    if r.returncode!=0:
        print(m['name'],"APPLY-FAILED",r.stderr.strip()[:100]); continue
    b=subprocess.run("cd /verif && cargo build --release --offline -p dv 2>&1 | grep -E '^error' -A5 | head -20",shell=True,capture_output=True,text=True)
    if b.stdout.strip():
        print(m['name'],"BUILD-FAILED",b.stdout[:300]); subprocess.check_call(["git","-C","/repo","checkout","--","."]); continue
    shutil.rmtree('/var/tmp/dv-mut-home',ignore_errors=True); os.makedirs('/var/tmp/dv-mut-home')
    shutil.copy('/verif/known_findings.jsonl','/var/tmp/dv-mut-home/')
    p=subprocess.run(["/verif/target/release/dv","check",m['property'],"--tier","quick"],capture_output=True,text=True,env=dict(os.environ,DV_HOME='/var/tmp/dv-mut-home'))
    out=p.stdout
    summ=[l for l in out.splitlines() if re.match(r'^C\d+ quick',l)]
    viol=[l for l in out.splitlines() if l.startswith('  C') and ':' in l][:1]
    cases=re.search(r'quick: (\d+) cases',summ[0]).group(1) if summ else '?'
    other=re.search(r'other oracles (\{.*?\})',summ[0]).group(1) if summ else ''
    print("%-40s %s exit=%d cases=%s %s other=%s"%(m['name'],m['property'],p.returncode,cases,(viol[0].strip()[:110] if viol else ''),other[:150]))
    sys.stdout.flush()
    res.append((m['name'],m['property'],'caught' if p.returncode==1 else 'MISSED',cases,(viol[0].strip()[:100] if viol else '')))
    subprocess.check_call(["git","-C","/repo","checkout","--","."])
shutil.rmtree('/var/tmp/dv-mut-home',ignore_errors=True)
if not flt:
    with open('/verif/mutants/RESULTS.md','w') as f:
        f.write("# Hand-written sensitivity mutants vs. the quick tier of the property's own check\n\n| mutant | property | result | cases until detection | first violation |\n|---|---|---|---|---|\n")
        for r in res: f.write("| %s | %s | %s | %s | %s |\n"%r)
        f.write("\n%d of %d caught by the quick tier (generated search only: the replay corpus is not used in these runs). The reverts of the repairs are c09_revert_d1, c03_busy_try_lock (D2), c04_no_notify / c04_sticky_flag_off (D3), c04_claim_never_poll (D8), c16_revert_d5, c15_no_active_guard_steal (D7), c15_no_pending_kick (D9), c15_revert_d9b, c15_revert_d9c, c05_revert_d10.\n"%(sum(1 for r in res if r[2]=='caught'),len(res)))
PY
git -C /repo checkout -- .
cargo build --release --offline -p dv 2>&1 | grep -E "^error" | head -3
