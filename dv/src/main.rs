//! dv: property-based checks of the desync properties C01..C17 (see /verif/DESIGN.md).
//!
//!   dv check <ID> [--tier quick|thorough] [--cases N] [--workers N] [--strict-harness]
//!   dv replay <file> [--quiet]
//!   dv gen <ID> [--n N]            print generated cases (debugging the generators)

use dv::case::*;
use dv::interp::{run_case, Outcome, RunOpts};
use dv::{gen, norm, profiles, world};
use proptest::strategy::{Strategy, ValueTree};
use proptest::test_runner::{Config, RngAlgorithm, RngSeed, TestCaseError, TestError, TestRng, TestRunner};
use serde::{Deserialize, Serialize};
use std::collections::{BTreeMap, HashSet};
use std::hash::{Hash, Hasher};
use std::sync::atomic::{AtomicBool, AtomicU64, Ordering};
use std::sync::{Arc, Mutex};
use std::time::Instant;
use vsched::rt::Status;

#[derive(Serialize, Deserialize, Clone, Debug)]
struct ReplayFile {
    property: String,
    clause: String,
    detail: String,
    signature: String,
    case: Case,
    trace: Vec<u8>,
    seed: u64,
    program: String,
    /// run with one OS thread per simulated thread (the tested code keeps per-thread state: see DESIGN.md 5.3)
    #[serde(default)]
    os_threads: bool,
}

impl ReplayFile {
    /// Runs the stored case: follows the realised trace; if the tree has changed so that the trace cannot be
    /// followed any more, falls back to the schedule that originally produced it.
    fn run(&self, opts: &RunOpts) -> (Case, Outcome) {
        if self.trace.is_empty() {
            // hand-written file: run the schedule it specifies
            let case = self.case.clone();
            let out = run_case(&case, opts);
            return (case, out);
        }
        let mut case = self.case.clone();
        case.sched = Sched::Trace { choices: self.trace.clone() };
        let out = run_case(&case, opts);
        if out.status == Status::Diverged {
            let case = self.case.clone();
            let out = run_case(&case, opts);
            return (case, out);
        }
        (case, out)
    }
}

#[derive(Serialize, Deserialize, Clone, Debug)]
struct KnownFinding {
    status: String,
    property: String,
    #[serde(default)]
    signature: String,
    #[serde(default)]
    commit: String,
    what: String,
}

fn verif_dir() -> std::path::PathBuf {
    // the binary lives in /verif/target/release; the checks are run with cwd=/verif
    std::env::var("DV_HOME").map(std::path::PathBuf::from).unwrap_or_else(|_| std::env::current_dir().unwrap())
}

fn load_known() -> Vec<KnownFinding> {
    let p = verif_dir().join("known_findings.jsonl");
    let mut v = vec![];
    if let Ok(s) = std::fs::read_to_string(p) {
        for l in s.lines() {
            let l = l.trim();
            if l.is_empty() || l.starts_with('#') {
                continue;
            }
            if let Ok(k) = serde_json::from_str::<KnownFinding>(l) {
                v.push(k);
            }
        }
    }
    v
}

/// Signature of a violation: property | clause | kinds of the operations involved | pool class.
/// Generic (no per-finding code); used to key known findings.
fn signature(case: &Case, v: &world::Violation) -> String {
    let kind = v.op.and_then(|id| find_op_kind(case, id)).unwrap_or_else(|| "-".to_string());
    format!("{}|{}|{}|pool{}", v.prop, v.clause, kind, if case.cfg.pool == 0 { "0" } else { ">0" })
}

fn find_op_kind(case: &Case, id: OpId) -> Option<String> {
    fn in_steps(steps: &[Step], id: OpId) -> Option<String> {
        for s in steps {
            match s {
                Step::NestedDesync { id: i, body, .. } => {
                    if *i == id {
                        return Some("nested-desync".into());
                    }
                    if let Some(k) = in_steps(body, id) {
                        return Some(k);
                    }
                }
                Step::NestedSync { id: i, body, .. } => {
                    if *i == id {
                        return Some("nested-sync".into());
                    }
                    if let Some(k) = in_steps(body, id) {
                        return Some(k);
                    }
                }
                Step::NestedFutDesync { id: i, body, .. } | Step::AwaitFutDesync { id: i, body, .. } => {
                    if *i == id {
                        return Some("nested-future_desync".into());
                    }
                    if let Some(k) = in_steps(body, id) {
                        return Some(k);
                    }
                }
                Step::AwaitFutSync { id: i, body, .. } => {
                    if *i == id {
                        return Some("nested-future_sync".into());
                    }
                    if let Some(k) = in_steps(body, id) {
                        return Some(k);
                    }
                }
                _ => {}
            }
        }
        None
    }
    for ph in case.phases.iter() {
        for c in ph.callers.iter() {
            for op in c.iter() {
                let (i, name, body): (OpId, &str, &[Step]) = match op {
                    Op::Desync { id, body, .. } => (*id, "desync", body),
                    Op::Sync { id, body, .. } => (*id, "sync", body),
                    Op::TrySync { id, body, .. } => (*id, "try_sync", body),
                    Op::FutDesync { id, body, .. } => (*id, "future_desync", body),
                    Op::FutSync { id, body, .. } => (*id, "future_sync", body),
                    Op::After { id, body, .. } => (*id, "after", body),
                    Op::PipeIn { id, body, .. } => (*id, "pipe_in", body),
                    Op::Pipe { id, body, .. } => (*id, "pipe", body),
                    Op::Suspend { id, .. } => (*id, "suspend", &[]),
                    Op::Attempt { id, .. } => (*id, "attempt", &[]),
                    _ => continue,
                };
                if i == id {
                    return Some(name.to_string());
                }
                if let Some(k) = in_steps(body, id) {
                    return Some(k);
                }
            }
        }
    }
    Some("pipe-item".into())
}

fn hash_case(case: &Case, trace: &[u8]) -> u64 {
    let mut h = std::collections::hash_map::DefaultHasher::new();
    // the schedule is represented by its realised trace
    let s = serde_json::to_string(&(&case.cfg, &case.phases)).unwrap_or_default();
    s.hash(&mut h);
    trace.hash(&mut h);
    h.finish()
}

fn mix(seed: u64, worker: u64) -> [u8; 32] {
    let mut out = [0u8; 32];
    let mut x = seed.wrapping_mul(0x9E3779B97F4A7C15).wrapping_add(worker.wrapping_mul(0xBF58476D1CE4E5B9)).wrapping_add(0x1234_5678_9abc_def1);
    for i in 0..4 {
        x ^= x >> 30;
        x = x.wrapping_mul(0xBF58476D1CE4E5B9);
        x ^= x >> 27;
        x = x.wrapping_mul(0x94D049BB133111EB);
        x ^= x >> 31;
        out[i * 8..i * 8 + 8].copy_from_slice(&x.to_le_bytes());
    }
    out
}

#[derive(Default)]
struct WorkerStats {
    evaluations: u64,
    nontrivial: u64,
    hashes: HashSet<u64>,
    labels: BTreeMap<String, u64>,
    other_oracle: BTreeMap<String, u64>,
    step_bound: u64,
    harness: u64,
    ambiguous: u64,
    saturated: u64,
    excluded_known: u64,
    steps: u64,
    samples: Vec<serde_json::Value>,
    harness_samples: Vec<String>,
}

struct Found {
    raw: Case,
    reason: String,
}

static MEM_STOP: AtomicBool = AtomicBool::new(false);
static UNREPRODUCED: AtomicBool = AtomicBool::new(false);

// ---- breadcrumbs: the case each worker is running, written out by a signal handler if the process is killed by the code under test
const CRUMB_SLOTS: usize = 32;
const CRUMB_SIZE: usize = 48 * 1024;
struct Crumbs(std::cell::UnsafeCell<[[u8; CRUMB_SIZE]; CRUMB_SLOTS]>);
unsafe impl Sync for Crumbs {}
static CRUMBS: Crumbs = Crumbs(std::cell::UnsafeCell::new([[0; CRUMB_SIZE]; CRUMB_SLOTS]));
#[allow(clippy::declare_interior_mutable_const)]
const ZERO_LEN: std::sync::atomic::AtomicUsize = std::sync::atomic::AtomicUsize::new(0);
static CRUMB_LEN: [std::sync::atomic::AtomicUsize; CRUMB_SLOTS] = [ZERO_LEN; CRUMB_SLOTS];
static CRUMB_FD: std::sync::atomic::AtomicI32 = std::sync::atomic::AtomicI32::new(-1);

fn crumb_set(worker: usize, case: &Case, buf: &mut Vec<u8>) {
    if worker >= CRUMB_SLOTS || CRUMB_FD.load(Ordering::Relaxed) < 0 {
        return;
    }
    buf.clear();
    if serde_json::to_writer(&mut *buf, case).is_err() || buf.len() > CRUMB_SIZE {
        CRUMB_LEN[worker].store(0, Ordering::SeqCst);
        return;
    }
    CRUMB_LEN[worker].store(0, Ordering::SeqCst);
    unsafe {
        let slot = &mut (*CRUMBS.0.get())[worker];
        slot[..buf.len()].copy_from_slice(buf);
    }
    CRUMB_LEN[worker].store(buf.len(), Ordering::SeqCst);
}

extern "C" fn on_fatal_signal(sig: libc::c_int) {
    // async-signal-safe: plain writes of pre-serialised buffers to a file that is already open
    let fd = CRUMB_FD.load(Ordering::SeqCst);
    if fd >= 0 {
        for w in 0..CRUMB_SLOTS {
            let n = CRUMB_LEN[w].load(Ordering::SeqCst);
            if n > 0 && n <= CRUMB_SIZE {
                let hdr = (n as u32).to_le_bytes();
                unsafe {
                    libc::write(fd, hdr.as_ptr() as *const libc::c_void, 4);
                    libc::write(fd, (*CRUMBS.0.get())[w].as_ptr() as *const libc::c_void, n);
                }
            }
        }
        unsafe { libc::fsync(fd) };
    }
    unsafe {
        libc::signal(sig, libc::SIG_DFL);
        libc::raise(sig);
    }
}

fn crumbs_install(dir: &std::path::Path) {
    let _ = std::fs::create_dir_all(dir);
    let path = dir.join("crash.bin");
    if let Ok(c) = std::ffi::CString::new(path.to_string_lossy().as_bytes()) {
        let fd = unsafe { libc::open(c.as_ptr(), libc::O_CREAT | libc::O_TRUNC | libc::O_WRONLY, 0o644) };
        if fd >= 0 {
            CRUMB_FD.store(fd, Ordering::SeqCst);
            for sig in [libc::SIGSEGV, libc::SIGABRT, libc::SIGBUS, libc::SIGILL] {
                unsafe { libc::signal(sig, on_fatal_signal as extern "C" fn(libc::c_int) as usize) };
            }
        }
    }
}

/// The cases a crashed search process was running (one per worker)
fn crumbs_read(dir: &std::path::Path) -> Vec<Case> {
    let data = std::fs::read(dir.join("crash.bin")).unwrap_or_default();
    let mut out = vec![];
    let mut i = 0;
    while i + 4 <= data.len() {
        let n = u32::from_le_bytes([data[i], data[i + 1], data[i + 2], data[i + 3]]) as usize;
        i += 4;
        if i + n > data.len() {
            break;
        }
        if let Ok(c) = serde_json::from_slice::<Case>(&data[i..i + n]) {
            out.push(c);
        }
        i += n;
    }
    out
}

/// resident set size of this process in MiB
fn rss_mib() -> u64 {
    std::fs::read_to_string("/proc/self/statm").ok().and_then(|s| s.split_whitespace().nth(1).and_then(|p| p.parse::<u64>().ok())).map(|pages| pages * 4096 / (1024 * 1024)).unwrap_or(0)
}

fn violations_for<'a>(out: &'a Outcome, id: &str) -> Vec<&'a world::Violation> {
    out.violations.iter().filter(|v| v.prop == id).collect()
}

/// Second engine for tested code that keeps per-thread state: fresh cases of the profile, each run in a process of its own with
/// one OS thread per simulated thread (`Config::os_threads`). Slow (a process per case), so it only runs when the main search has
/// seen a violation that does not reproduce in isolation. Returns the replay file of the first case that violates the property.
fn os_thread_search(id: &str, oracle_id: &str, seed: u64, per_worker: u32, workers: u64, scratch: &std::path::Path, rdir: &std::path::Path) -> (u64, Option<(std::path::PathBuf, String)>) {
    use proptest::strategy::ValueTree;
    let stop = Arc::new(AtomicBool::new(false));
    let ran = Arc::new(AtomicU64::new(0));
    let found: Arc<Mutex<Option<(std::path::PathBuf, String)>>> = Arc::new(Mutex::new(None));
    let exe = std::env::current_exe().expect("current_exe");
    let _ = std::fs::create_dir_all(scratch);
    let mut hs = vec![];
    for w in 0..workers {
        let (stop, ran, found, exe) = (stop.clone(), ran.clone(), found.clone(), exe.clone());
        let (id, oracle_id, scratch, rdir) = (id.to_string(), oracle_id.to_string(), scratch.to_path_buf(), rdir.to_path_buf());
        hs.push(std::thread::spawn(move || {
            let prof = profiles::profile(&id);
            let strat = gen::case_strategy(&prof);
            let nopts = norm::NormOpts { allow_panic: prof.shape == gen::Shape::Panic };
            let cfg = Config { failure_persistence: None, rng_algorithm: RngAlgorithm::ChaCha, ..Config::default() };
            let rng = TestRng::from_seed(RngAlgorithm::ChaCha, &mix(seed ^ 0x05_7472_6561_6473, w));
            let mut runner = TestRunner::new_with_rng(cfg, rng);
            for _ in 0..per_worker {
                if stop.load(Ordering::Relaxed) {
                    break;
                }
                let raw = match strat.new_tree(&mut runner) {
                    Ok(t) => t.current(),
                    Err(_) => continue,
                };
                let case = norm::normalize(&raw, &nopts);
                if case.op_count() == 0 {
                    continue;
                }
                let rf = ReplayFile { property: oracle_id.clone(), clause: String::new(), detail: String::new(), signature: String::new(), program: case.pretty(), case, trace: vec![], seed, os_threads: true };
                let body = serde_json::to_string_pretty(&rf).unwrap_or_default();
                let tmp = scratch.join(format!("os-search-{}.tmp", w));
                if std::fs::write(&tmp, &body).is_err() {
                    continue;
                }
                ran.fetch_add(1, Ordering::Relaxed);
                let run = || std::process::Command::new(&exe).arg("replay").arg(&tmp).arg("--quiet").arg("--in-process").stdout(std::process::Stdio::null()).stderr(std::process::Stdio::null()).status().map(|s| s.code() == Some(1)).unwrap_or(false);
                // (twice: the verdict has to be a property of the case, not of one run)
                if run() && run() {
                    let mut h = std::collections::hash_map::DefaultHasher::new();
                    body.hash(&mut h);
                    let _ = std::fs::create_dir_all(&rdir);
                    let keep = rdir.join(format!("{}-osthreads-{:016x}.json", oracle_id, h.finish()));
                    let _ = std::fs::write(&keep, &body);
                    let mut f = found.lock().unwrap();
                    if f.is_none() {
                        *f = Some((keep, rf.program.clone()));
                    }
                    stop.store(true, Ordering::Relaxed);
                    break;
                }
            }
        }));
    }
    for h in hs {
        let _ = h.join();
    }
    let f = found.lock().unwrap().take();
    (ran.load(Ordering::Relaxed), f)
}

fn run_worker(id: &str, oracle_id: &str, seed: u64, worker: u64, cases: u32, stop: Arc<AtomicBool>, strict_harness: bool, known: Arc<Vec<KnownFinding>>, progress: Arc<AtomicU64>) -> (WorkerStats, Option<Found>) {
    let prof = profiles::profile(id);
    let strat = gen::case_strategy(&prof);
    let allow_panic = prof.shape == gen::Shape::Panic;
    let mut stats = WorkerStats::default();
    let counting = std::cell::Cell::new(true);
    let stats_cell = std::cell::RefCell::new(&mut stats);
    let cfg = Config { cases, failure_persistence: None, max_shrink_iters: 3000, max_global_rejects: 0, rng_algorithm: RngAlgorithm::ChaCha, rng_seed: RngSeed::Fixed(seed), ..Config::default() };
    let rng = TestRng::from_seed(RngAlgorithm::ChaCha, &mix(seed, worker));
    let mut runner = TestRunner::new_with_rng(cfg, rng);
    let opts = RunOpts::default();
    let nopts = norm::NormOpts { allow_panic };
    let id_owned = oracle_id.to_string();
    let prof_id = id.to_string();
    let crumb_buf = std::cell::RefCell::new(Vec::<u8>::with_capacity(4096));
    let result = runner.run(&strat, |raw| {
        if stop.load(Ordering::Relaxed) && counting.get() {
            // another worker has found a violation: wind this one down (a single reject aborts the runner)
            return Err(TestCaseError::reject("stopped"));
        }
        let case = norm::normalize(&raw, &nopts);
        if case.op_count() == 0 {
            return Ok(());
        }
        crumb_set(worker as usize, &case, &mut crumb_buf.borrow_mut());
        let out = run_case(&case, &opts);
        let mine = violations_for(&out, &id_owned);
        // known findings are excluded (counted) so that the search continues behind them
        let mine: Vec<&world::Violation> = mine.into_iter().filter(|v| {
            let sig = signature(&case, v);
            !known.iter().any(|k| k.status == "open" && k.signature == sig)
        }).collect();
        if counting.get() {
            let mut st = stats_cell.borrow_mut();
            st.evaluations += 1;
            if st.evaluations % 8192 == 0 && worker == 0 {
                // abandoned executions cannot give their memory back: stop (inconclusive) long before the machine runs out
                let limit = std::env::var("DV_MAX_RSS_MIB").ok().and_then(|v| v.parse().ok()).unwrap_or(24 * 1024);
                if rss_mib() > limit {
                    MEM_STOP.store(true, Ordering::Relaxed);
                    stop.store(true, Ordering::Relaxed);
                }
            }
            st.steps += out.steps;
            progress.fetch_add(1, Ordering::Relaxed);
            let nt = profiles::nontrivial(&prof_id, &case, &out);
            let h = hash_case(&case, &out.trace);
            if nt && st.hashes.insert(h) {
                st.nontrivial += 1;
                if st.samples.len() < 2 && worker == 0 {
                    st.samples.push(serde_json::json!({
                        "program": case.pretty(),
                        "trace_prefix": out.trace.iter().take(40).collect::<Vec<_>>(),
                        "trace_len": out.trace.len(),
                        "steps": out.steps,
                        "status": format!("{:?}", out.status),
                        "classes": profiles::labels(&id_owned, &case, &out),
                    }));
                }
            }
            for l in profiles::labels(&id_owned, &case, &out) {
                *st.labels.entry(l).or_insert(0) += 1;
            }
            if out.status == Status::StepBound {
                st.step_bound += 1;
            }
            for v in out.violations.iter() {
                if v.prop == "HARNESS" {
                    st.harness += 1;
                    if st.harness_samples.len() < 3 {
                        st.harness_samples.push(format!("{}\n{}", v.detail, case.pretty()));
                    }
                } else if v.prop == "AMBIG" {
                    st.ambiguous += 1;
                } else if v.prop == "SATURATED" {
                    st.saturated += 1;
                } else if v.prop != id_owned {
                    *st.other_oracle.entry(format!("{}:{}", v.prop, v.clause)).or_insert(0) += 1;
                }
            }
            let all_mine = violations_for(&out, &id_owned).len();
            if all_mine > mine.len() {
                st.excluded_known += 1;
            }
        }
        if let Some(v) = mine.first() {
            if counting.get() {
                // keep the failing case before anything else runs: if the tested code has corrupted this process (a use-after-free
                // in the library is a plausible way to break a property) the shrinking runs below may never finish
                let dir = verif_dir().join("pending").join(&id_owned);
                let _ = std::fs::create_dir_all(&dir);
                let rf = ReplayFile { property: v.prop.clone(), clause: v.clause.clone(), detail: v.detail.clone(), signature: signature(&case, v), case: case.clone(), trace: out.trace.clone(), seed, program: case.pretty(), os_threads: false };
                let _ = std::fs::write(dir.join(format!("unshrunk-{}.json", worker)), serde_json::to_string(&rf).unwrap_or_default());
            }
            counting.set(false);
            stop.store(true, Ordering::Relaxed);
            return Err(TestCaseError::fail(format!("{}|{}", v.prop, v.clause)));
        }
        if strict_harness && out.violations.iter().any(|v| v.prop == "HARNESS") {
            counting.set(false);
            stop.store(true, Ordering::Relaxed);
            return Err(TestCaseError::fail("HARNESS".to_string()));
        }
        Ok(())
    });
    drop(stats_cell);
    match result {
        Ok(()) => (stats, None),
        Err(TestError::Fail(reason, raw)) => (stats, Some(Found { raw, reason: reason.message().to_string() })),
        Err(TestError::Abort(_)) => (stats, None),
    }
}

/// Second shrinking pass, on the normalised case: greedily delete callers, operations, body steps, wakers and
/// producer ops, and try simpler schedules, as long as the same property (and clause) is still violated.
/// proptest shrinks the raw value; this pass removes what normalisation had already turned into no-ops and what
/// proptest's per-component search left behind.
fn minimise(id: &str, clause: &str, case: &Case) -> Case {
    let still = |c: &Case| -> bool {
        if c.op_count() == 0 {
            return false;
        }
        let out = run_case(c, &RunOpts::default());
        out.violations.iter().any(|v| v.prop == id && v.clause == clause)
    };
    let mut best = case.clone();
    best.assign_ids();
    let mut budget = 4000;
    loop {
        let mut progress = false;
        // simpler schedules first
        for cand in [Sched::Delay { points: vec![], rr: false }, Sched::Delay { points: vec![], rr: true }, Sched::Walk { stay: 0, bytes: vec![], tail: Tail::RoundRobin }] {
            if best.sched != cand && budget > 0 {
                budget -= 1;
                let mut c = best.clone();
                c.sched = cand;
                if still(&c) {
                    best = c;
                    progress = true;
                    break;
                }
            }
        }
        if let Sched::Walk { stay, bytes, tail } = best.sched.clone() {
            if bytes.len() > 1 && budget > 0 {
                budget -= 1;
                let mut c = best.clone();
                c.sched = Sched::Walk { stay, bytes: bytes[..bytes.len() / 2].to_vec(), tail };
                if still(&c) {
                    best = c;
                    progress = true;
                }
            }
        }
        for pi in 0..best.phases.len() {
            // whole callers / wakers / producers
            let mut ci = 0;
            while ci < best.phases[pi].callers.len() && budget > 0 {
                if best.phases[pi].callers[ci].iter().all(|o| matches!(o, Op::Nop)) && !best.phases[pi].callers[ci].is_empty() {
                    best.phases[pi].callers[ci].clear();
                }
                if !best.phases[pi].callers[ci].is_empty() {
                    budget -= 1;
                    let mut c = best.clone();
                    c.phases[pi].callers[ci].clear();
                    if still(&c) {
                        best = c;
                        progress = true;
                    }
                }
                ci += 1;
            }
            let mut wi = 0;
            while wi < best.phases[pi].wakers.len() && budget > 0 {
                budget -= 1;
                let mut c = best.clone();
                c.phases[pi].wakers.remove(wi);
                if still(&c) {
                    best = c;
                    progress = true;
                } else {
                    wi += 1;
                }
            }
            // single operations (kept as Nop so that WaitFor indices stay valid)
            for ci in 0..best.phases[pi].callers.len() {
                for oi in 0..best.phases[pi].callers[ci].len() {
                    if matches!(best.phases[pi].callers[ci][oi], Op::Nop) || budget == 0 {
                        continue;
                    }
                    budget -= 1;
                    let mut c = best.clone();
                    c.phases[pi].callers[ci][oi] = Op::Nop;
                    if still(&c) {
                        best = c;
                        progress = true;
                        continue;
                    }
                    // body steps
                    let nsteps = match &best.phases[pi].callers[ci][oi] {
                        Op::Desync { body, .. } | Op::Sync { body, .. } | Op::TrySync { body, .. } | Op::FutDesync { body, .. } | Op::FutSync { body, .. } | Op::After { body, .. } | Op::PipeIn { body, .. } | Op::Pipe { body, .. } => body.len(),
                        _ => 0,
                    };
                    let mut si = 0;
                    let mut n = nsteps;
                    while si < n && budget > 0 {
                        budget -= 1;
                        let mut c = best.clone();
                        match &mut c.phases[pi].callers[ci][oi] {
                            Op::Desync { body, .. } | Op::Sync { body, .. } | Op::TrySync { body, .. } | Op::FutDesync { body, .. } | Op::FutSync { body, .. } | Op::After { body, .. } | Op::PipeIn { body, .. } | Op::Pipe { body, .. } => {
                                body.remove(si);
                            }
                            _ => {}
                        }
                        if still(&c) {
                            best = c;
                            n -= 1;
                            progress = true;
                        } else {
                            si += 1;
                        }
                    }
                }
            }
            for si in 0..best.phases[pi].producers.len() {
                let mut k = 0;
                while k < best.phases[pi].producers[si].len() && budget > 0 {
                    budget -= 1;
                    let mut c = best.clone();
                    c.phases[pi].producers[si].remove(k);
                    if still(&c) {
                        best = c;
                        progress = true;
                    } else {
                        k += 1;
                    }
                }
            }
        }
        if !progress || budget == 0 {
            break;
        }
    }
    // drop trailing Nops and empty callers that nothing refers to
    let uses_waitfor = best.phases.iter().any(|p| p.callers.iter().any(|c| c.iter().any(|o| matches!(o, Op::WaitFor { .. }))));
    if !uses_waitfor {
        for ph in best.phases.iter_mut() {
            for c in ph.callers.iter_mut() {
                c.retain(|o| !matches!(o, Op::Nop));
            }
            let before: Vec<Vec<Op>> = ph.callers.clone();
            ph.callers.retain(|c| !c.is_empty());
            if ph.callers.is_empty() {
                ph.callers = before;
            }
        }
        let mut c = best.clone();
        c.assign_ids();
        if still(&c) {
            best = c;
        } else {
            best = {
                let mut b = best;
                b.assign_ids();
                b
            };
        }
    }
    best.assign_ids();
    best
}

fn write_replay(id: &str, case: &Case, out: &Outcome, v: &world::Violation, seed: u64, dir: &std::path::Path) -> std::path::PathBuf {
    let sig = signature(case, v);
    let rf = ReplayFile { property: v.prop.clone(), clause: v.clause.clone(), detail: v.detail.clone(), signature: sig, case: case.clone(), trace: out.trace.clone(), seed, program: case.pretty(), os_threads: false };
    let body = serde_json::to_string_pretty(&rf).unwrap();
    let mut h = std::collections::hash_map::DefaultHasher::new();
    body.hash(&mut h);
    let _ = std::fs::create_dir_all(dir);
    let path = dir.join(format!("{}-{:016x}.json", id, h.finish()));
    std::fs::write(&path, body).expect("write replay file");
    path
}

fn print_outcome(case: &Case, out: &Outcome) {
    println!("{}", case.pretty());
    println!("status: {:?}, steps: {}, trace: {} decisions", out.status, out.steps, out.trace.len());
    if !out.history.is_empty() {
        println!("--- stamped history");
        for h in out.history.iter() {
            println!("{}", h);
        }
    }
    println!("--- tasks");
    for t in out.tasks.iter() {
        println!("  task {} '{}' {:?} blocking_calls={} steps={}", t.id, t.name, t.state, t.blocking_calls, t.local_steps);
        if let Some(m) = &t.panic_msg {
            println!("      panicked: {}", m.lines().next().unwrap_or(""));
        }
        if let Some(bt) = &t.blocked_bt {
            for l in bt.lines().take(14) {
                println!("      {}", l);
            }
        }
    }
    println!("--- violations");
    for v in out.violations.iter() {
        println!("  {} {} obj={:?} op={:?}: {}", v.prop, v.clause, v.obj, v.op, v.detail);
    }
}

/// exit code: 0 held, 1 violation reproduced, 2 could not decide
fn cmd_replay(path: &str, quiet: bool) -> i32 {
    let body = match std::fs::read_to_string(path) {
        Ok(b) => b,
        Err(e) => {
            eprintln!("cannot read {}: {}", path, e);
            return 2;
        }
    };
    let rf: ReplayFile = match serde_json::from_str(&body) {
        Ok(r) => r,
        Err(e) => {
            eprintln!("cannot parse {}: {}", path, e);
            return 2;
        }
    };
    let (case, out) = rf.run(&RunOpts { record_history: !quiet, backtraces: !quiet, verbose: std::env::var("DV_VERBOSE").is_ok(), os_threads: rf.os_threads, ..Default::default() });
    if rf.os_threads && !quiet {
        println!("(run with one OS thread per simulated thread)");
    }
    if !quiet {
        print_outcome(&case, &out);
    }
    let mine = violations_for(&out, &rf.property);
    if !mine.is_empty() {
        println!("REPRODUCED property={} clause={} ({})", rf.property, mine[0].clause, path);
        return 1;
    }
    match out.status {
        Status::Completed => {
            println!("HELD property={} on replay {} ({} steps)", rf.property, path, out.steps);
            0
        }
        Status::Aborted(_) => {
            println!("HELD property={} on replay {} (other oracles: {:?})", rf.property, path, out.violations.iter().map(|v| format!("{}:{}", v.prop, v.clause)).collect::<Vec<_>>());
            0
        }
        s => {
            println!("INCONCLUSIVE property={} replay {} status {:?}", rf.property, path, s);
            2
        }
    }
}

fn cmd_check(id: &str, tier: &str, cases_override: Option<u32>, workers: usize, strict_harness: bool, oracle_id: Option<String>) -> i32 {
    let oracle_id = oracle_id.unwrap_or_else(|| id.to_string());
    // cross-profile run (the cases of one property's profile judged by another property's oracle): findings belong to the oracle's
    // property; the evidence file of the profile's own property is left alone
    let cross = oracle_id != id;
    let rid: String = oracle_id.clone();
    let rid = rid.as_str();
    let t0 = Instant::now();
    let seed: u64 = std::env::var("VERIF_SEED").ok().and_then(|s| s.parse::<i64>().ok()).map(|v| v as u64).unwrap_or(0);
    let home = verif_dir();
    let known = Arc::new(load_known());
    let mut printed_known: HashSet<String> = HashSet::new();
    let mut violation_line: Option<String> = None;
    // 1. replay corpus
    let mut replayed = 0;
    let rdir = home.join("replays").join(rid);
    if let Ok(rd) = std::fs::read_dir(&rdir).and_then(|rd| if cross { Err(std::io::Error::new(std::io::ErrorKind::Other, "corpus is replayed by the property's own run")) } else { Ok(rd) }) {
        let mut files: Vec<_> = rd.filter_map(|e| e.ok()).map(|e| e.path()).filter(|p| p.extension().map(|x| x == "json").unwrap_or(false)).collect();
        files.sort();
        for f in files {
            let body = std::fs::read_to_string(&f).unwrap_or_default();
            if let Ok(rf) = serde_json::from_str::<ReplayFile>(&body) {
                replayed += 1;
                let (case, out) = rf.run(&RunOpts::default());
                for v in violations_for(&out, id) {
                    let sig = signature(&case, v);
                    if let Some(k) = known.iter().find(|k| k.status == "open" && k.signature == sig) {
                        if printed_known.insert(sig.clone()) {
                            println!("KNOWN-FINDING: property={} {}", id, k.what);
                        }
                    } else if violation_line.is_none() {
                        violation_line = Some(format!("VIOLATION property={} replay={}", id, f.display()));
                        println!("  {} {}: {}", v.prop, v.clause, v.detail);
                    }
                }
            }
        }
    }
    // 2. generated search
    let pending = home.join("pending").join(rid);
    let _ = std::fs::remove_dir_all(&pending);
    crumbs_install(&pending);
    let cases = cases_override.unwrap_or(match tier {
        "thorough" => 1_500_000,
        _ => 120_000,
    });
    let stop = Arc::new(AtomicBool::new(false));
    let progress = Arc::new(AtomicU64::new(0));
    let results: Arc<Mutex<Vec<(WorkerStats, Option<Found>)>>> = Arc::new(Mutex::new(vec![]));
    let mut hs = vec![];
    for wk in 0..workers {
        let (stop, results, known, progress) = (stop.clone(), results.clone(), known.clone(), progress.clone());
        let id = id.to_string();
        let oracle_id = oracle_id.clone();
        hs.push(
            std::thread::Builder::new()
                .stack_size(16 * 1024 * 1024)
                .spawn(move || {
                    let r = run_worker(&id, &oracle_id, seed, wk as u64, cases, stop, strict_harness, known, progress);
                    results.lock().unwrap().push(r);
                })
                .unwrap(),
        );
    }
    for h in hs {
        let _ = h.join();
    }
    let mut results = std::mem::take(&mut *results.lock().unwrap());
    // 3. aggregate
    let mut agg = WorkerStats::default();
    let mut found: Vec<Found> = vec![];
    for (st, f) in results.drain(..) {
        agg.evaluations += st.evaluations;
        agg.steps += st.steps;
        agg.step_bound += st.step_bound;
        agg.harness += st.harness;
        agg.ambiguous += st.ambiguous;
        agg.saturated += st.saturated;
        agg.excluded_known += st.excluded_known;
        for h in st.hashes {
            agg.hashes.insert(h);
        }
        for (k, v) in st.labels {
            *agg.labels.entry(k).or_insert(0) += v;
        }
        for (k, v) in st.other_oracle {
            *agg.other_oracle.entry(k).or_insert(0) += v;
        }
        agg.samples.extend(st.samples);
        agg.harness_samples.extend(st.harness_samples);
        if let Some(f) = f {
            found.push(f);
        }
    }
    let mut violations = 0;
    let mut os_stage_cases = 0u64;
    if let Some(f) = found.into_iter().min_by_key(|f| serde_json::to_string(&f.raw).map(|s| s.len()).unwrap_or(usize::MAX)) {
        let allow_panic = profiles::profile(id).shape == gen::Shape::Panic;
        let case = norm::normalize(&f.raw, &norm::NormOpts { allow_panic });
        let out = run_case(&case, &RunOpts { record_history: true, ..Default::default() });
        if f.reason == "HARNESS" {
            println!("HARNESS-DEFECT (not a violation): unexplained hang; shrunk case follows");
            print_outcome(&case, &out);
        } else if let Some(v) = violations_for(&out, &oracle_id).first() {
            violations = 1;
            // second shrinking pass on the normalised case
            let small = minimise(&oracle_id, &v.clause, &case);
            let out_small = run_case(&small, &RunOpts { record_history: true, ..Default::default() });
            let (case, out) = if violations_for(&out_small, &oracle_id).first().is_some() { (small, out_small) } else { (case, out) };
            let v = violations_for(&out, &oracle_id).first().cloned().cloned().unwrap();
            let v = &v;
            let path = write_replay(rid, &case, &out, v, seed, &rdir);
            println!("--- shrunk failing case for {} ---", id);
            print_outcome(&case, &out);
            if violation_line.is_none() {
                violation_line = Some(format!("VIOLATION property={} replay={}", rid, path.display()));
            }
        } else {
            println!("note: a worker reported {} but the case does not reproduce it when it is run on its own: some state outlives an execution (thread-local or static state in the tested code is shared by all simulated threads of a worker and is not reset between cases)", f.reason);
            // second opinion: the failing cases the workers kept, each in a process of its own with one OS thread per simulated
            // thread, where per-thread state of the tested code behaves as it does for real threads
            let mut cands: Vec<ReplayFile> = vec![];
            if let Ok(rd) = std::fs::read_dir(&pending) {
                let mut files: Vec<_> = rd.filter_map(|e| e.ok()).map(|e| e.path()).filter(|p| p.extension().map(|x| x == "json").unwrap_or(false)).collect();
                files.sort();
                for p in files {
                    if let Some(rf) = std::fs::read_to_string(&p).ok().and_then(|b| serde_json::from_str::<ReplayFile>(&b).ok()) {
                        cands.push(rf);
                    }
                }
            }
            let exe = std::env::current_exe().expect("current_exe");
            let mut confirmed = false;
            for (n, mut rf) in cands.into_iter().enumerate() {
                rf.os_threads = true;
                rf.property = oracle_id.clone();
                let body = serde_json::to_string_pretty(&rf).unwrap_or_default();
                let tmp = pending.join(format!("os-{}.tmp", n));
                if std::fs::write(&tmp, &body).is_err() {
                    continue;
                }
                let hit = (0..2).any(|_| std::process::Command::new(&exe).arg("replay").arg(&tmp).arg("--quiet").arg("--in-process").stdout(std::process::Stdio::null()).stderr(std::process::Stdio::null()).status().map(|s| s.code() == Some(1)).unwrap_or(false));
                if hit {
                    let mut h = std::collections::hash_map::DefaultHasher::new();
                    body.hash(&mut h);
                    let _ = std::fs::create_dir_all(&rdir);
                    let keep = rdir.join(format!("{}-osthreads-{:016x}.json", rid, h.finish()));
                    let _ = std::fs::write(&keep, &body);
                    println!("note: reproduced in a process of its own with one OS thread per simulated thread (not shrunk):\n{}", rf.program);
                    violations = 1;
                    if violation_line.is_none() {
                        violation_line = Some(format!("VIOLATION property={} replay={}", rid, keep.display()));
                    }
                    confirmed = true;
                    break;
                }
            }
            if !confirmed {
                // ... and a search of its own in that mode (the cases above were selected under the wrong semantics)
                let per_worker = if tier == "thorough" { 20_000 } else { 3_000 };
                let (n, f) = os_thread_search(id, &oracle_id, seed, per_worker, 16, &pending, &rdir);
                println!("{} os-thread stage: {} cases, each in a process of its own with one OS thread per simulated thread", rid, n);
                os_stage_cases = n;
                if let Some((keep, program)) = f {
                    println!("note: violated in that mode (not shrunk):\n{}", program);
                    violations = 1;
                    if violation_line.is_none() {
                        violation_line = Some(format!("VIOLATION property={} replay={}", rid, keep.display()));
                    }
                    confirmed = true;
                }
            }
            if !confirmed {
                UNREPRODUCED.store(true, Ordering::Relaxed);
            }
        }
    }
    for k in known.iter().filter(|k| k.status == "open" && k.property == id) {
        if agg.excluded_known > 0 && printed_known.insert(k.signature.clone()) {
            println!("KNOWN-FINDING: property={} {}", id, k.what);
        }
    }
    // (the shrinking runs are over: the unshrunk copies kept in case of a crash are not needed any more)
    let _ = std::fs::remove_dir_all(&pending);
    let wall = t0.elapsed().as_secs_f64();
    // 4. evidence
    let distinct = agg.hashes.len() as u64;
    let evidence = serde_json::json!({
        "property_id": id,
        "tier": if tier == "thorough" { "thorough" } else { "quick" },
        "seed": seed as i64,
        "level": "exploration",
        "coverage": {
            "evaluations": agg.evaluations,
            "distinct_nontrivial": distinct,
            "rule": profiles::rule_text(id),
            "samples": agg.samples.iter().take(4).collect::<Vec<_>>(),
            "class_histogram": agg.labels,
            "scheduling_decisions": agg.steps,
            "os_thread_stage_cases": os_stage_cases,
            "inconclusive_step_bound": agg.step_bound,
            "harness_unexplained_hangs": agg.harness,
            "ambiguous_attributions": agg.ambiguous,
            "inconclusive_pool_exhausted_by_generated_program": agg.saturated,
            "other_oracle_failures": agg.other_oracle,
            "excluded_known": agg.excluded_known,
            "replayed_corpus": replayed,
            "workers": workers,
            "cases_per_worker": cases,
            "executions_per_s": if wall > 0.0 { (agg.evaluations as f64 / wall) as u64 } else { 0 },
            "exhaustive": false
        },
        "assumptions": [
            "interleavings are explored at the granularity of Mutex/Condvar/park/unpark/spawn/join/mpsc operations; atomics inside the futures crate execute atomically; no weak-memory effects",
            "generated-input search never establishes absence: bounds are <=4 objects, <=4 callers, pool 0..3, <=~30 operations, <=300 explicit schedule choices followed by a deterministic tail",
            "the vsched primitives implement a subset of the behaviours std documents (no fairness, lost notifications, optional spurious wake-ups), so every explored execution is one real threads can produce",
            "executions cut off by the step bound count as inconclusive, never as violations",
            "simulated threads are coroutines on one OS thread per worker: per-thread state inside the tested code (the unmodified library has none) is only handled by the OS-thread stage, which runs when an in-run violation does not reproduce in isolation (coverage.os_thread_stage_cases; 0 = it did not have to run)"
        ],
        "wall_s": wall,
        "violations": violations
    });
    let edir = home.join("evidence");
    let _ = std::fs::create_dir_all(&edir);
    if !cross {
        std::fs::write(edir.join(format!("{}.json", id)), serde_json::to_string_pretty(&evidence).unwrap()).expect("write evidence");
    } else {
        // (merged into the oracle property's evidence file by ./check)
        let _ = std::fs::create_dir_all(home.join("pending"));
        std::fs::write(home.join("pending").join(format!("cross-{}-{}.json", rid, id)), serde_json::to_string_pretty(&evidence).unwrap()).expect("write cross evidence");
    }
    println!(
        "{} {}: {} cases, {} distinct non-trivial, {} step-bound, {} harness-unexplained, {} ambiguous, {} pool-exhausted, other oracles {:?}, {:.1}s ({} exec/s)",
        id,
        tier,
        agg.evaluations,
        distinct,
        agg.step_bound,
        agg.harness,
        agg.ambiguous,
        agg.saturated,
        agg.other_oracle,
        wall,
        if wall > 0.0 { (agg.evaluations as f64 / wall) as u64 } else { 0 }
    );
    if agg.harness > 0 {
        println!("WARNING: {} unexplained hangs (harness defect, not counted as violations). First sample:\n{}", agg.harness, agg.harness_samples.first().cloned().unwrap_or_default());
    }
    if let Some(l) = violation_line {
        println!("{}", l);
        return 1;
    }
    if UNREPRODUCED.load(Ordering::Relaxed) {
        println!("INCONCLUSIVE: a violation of {} was observed during the search but cannot be reproduced in isolation (see the note above)", rid);
        return 2;
    }
    if MEM_STOP.load(Ordering::Relaxed) {
        println!("INCONCLUSIVE: the memory budget of this process was reached after {} cases; no violation was seen up to that point", agg.evaluations);
        return 2;
    }
    0
}

/// Runs the search in a child process. The tested library runs in-process with the harness, and a change to it that
/// corrupts memory (a realistic way of breaking a property) can take the whole process down: the verdict must survive that.
fn supervise_check(id: &str, args: &[String]) -> i32 {
    // (a cross-profile run reports under the oracle's property)
    let id = args.iter().position(|a| a == "--oracle").and_then(|i| args.get(i + 1)).map(|s| s.as_str()).unwrap_or(id);
    let exe = std::env::current_exe().expect("current_exe");
    let status = std::process::Command::new(&exe).args(&args[1..]).arg("--in-process").status();
    let status = match status {
        Ok(s) => s,
        Err(e) => {
            println!("INCONCLUSIVE: could not start the search process: {}", e);
            return 2;
        }
    };
    if let Some(code) = status.code() {
        return code;
    }
    // killed by a signal. A worker that had already seen a violation left its failing case behind: decide on that,
    // each case in a process of its own
    let home = verif_dir();
    let pending = home.join("pending").join(id);
    let mut files: Vec<_> = std::fs::read_dir(&pending).map(|rd| rd.filter_map(|e| e.ok()).map(|e| e.path()).filter(|p| p.extension().map(|x| x == "json").unwrap_or(false)).collect()).unwrap_or_default();
    files.sort();
    for f in files {
        let reproduced = (0..3).any(|_| std::process::Command::new(&exe).arg("replay").arg(&f).arg("--quiet").arg("--in-process").stdout(std::process::Stdio::null()).status().map(|s| s.code() == Some(1)).unwrap_or(false));
        if reproduced {
            let body = std::fs::read_to_string(&f).unwrap_or_default();
            let mut h = std::collections::hash_map::DefaultHasher::new();
            body.hash(&mut h);
            let rdir = home.join("replays").join(id);
            let _ = std::fs::create_dir_all(&rdir);
            let keep = rdir.join(format!("{}-unshrunk-{:016x}.json", id, h.finish()));
            let _ = std::fs::write(&keep, body);
            let _ = std::fs::remove_dir_all(&pending);
            println!("note: the search process died ({}) after this violation had been found; the stored case is not shrunk", status);
            println!("VIOLATION property={} replay={}", id, keep.display());
            return 1;
        }
    }
    // no worker had recorded a violation: look at the cases the workers were running when the process died
    let cases = crumbs_read(&pending);
    let rdir = home.join("replays").join(id);
    let mut crashing: Option<std::path::PathBuf> = None;
    for (n, case) in cases.iter().enumerate() {
        let rf = ReplayFile { property: id.to_string(), clause: "search-process-died".to_string(), detail: format!("the search process died ({}) while a worker was running this case", status), signature: String::new(), case: case.clone(), trace: vec![], seed: 0, program: case.pretty(), os_threads: false };
        let tmp = pending.join(format!("crumb-{}.json", n));
        let _ = std::fs::write(&tmp, serde_json::to_string(&rf).unwrap_or_default());
        let st = std::process::Command::new(&exe).arg("replay").arg(&tmp).arg("--quiet").arg("--in-process").stdout(std::process::Stdio::null()).stderr(std::process::Stdio::null()).status();
        let (violates, dies) = match st {
            Ok(s) => (s.code() == Some(1), s.code().is_none()),
            Err(_) => (false, false),
        };
        // a process that dies inside the library under test is a memory-safety failure in its own right (C14); in a case of the
        // panic-containment property (C15) it is the opposite of containment: an injected panic that ends in an abort (a second
        // panic raised by the library while the first one unwinds) takes every object of the process with it. (Twice: the
        // verdict must be a property of the case.)
        let dies_again = dies && (id == "C14" || id == "C15") && std::process::Command::new(&exe).arg("replay").arg(&tmp).arg("--quiet").arg("--in-process").stdout(std::process::Stdio::null()).stderr(std::process::Stdio::null()).status().map(|s| s.code().is_none()).unwrap_or(false);
        if violates || dies_again {
            let _ = std::fs::create_dir_all(&rdir);
            let body = std::fs::read_to_string(&tmp).unwrap_or_default();
            let mut h = std::collections::hash_map::DefaultHasher::new();
            body.hash(&mut h);
            let keep = rdir.join(format!("{}-unshrunk-{:016x}.json", id, h.finish()));
            let _ = std::fs::write(&keep, body);
            let _ = std::fs::remove_dir_all(&pending);
            println!("note: the search process died ({}); this is one of the cases it was running and it {} on its own (not shrunk)", status, if violates { "violates the property" } else { "kills the process again" });
            println!("VIOLATION property={} replay={}", id, keep.display());
            return 1;
        }
        if dies && crashing.is_none() {
            let _ = std::fs::create_dir_all(&rdir);
            let keep = home.join("pending").join(format!("{}-process-died.json", id));
            let _ = std::fs::copy(&tmp, &keep);
            crashing = Some(keep);
        }
    }
    let _ = std::fs::remove_dir_all(&pending);
    match crashing {
        Some(p) => println!("INCONCLUSIVE: the search process for {} died ({}) before a violation of {} was recorded; the case in {} kills a process on its own", id, status, id, p.display()),
        None => println!("INCONCLUSIVE: the search process for {} died ({}) before a violation of {} was recorded", id, status, id),
    }
    2
}

fn cmd_gen(id: &str, n: usize) {
    let prof = profiles::profile(id);
    let strat = gen::case_strategy(&prof);
    let allow_panic = prof.shape == gen::Shape::Panic;
    let mut runner = TestRunner::new_with_rng(Config::default(), TestRng::from_seed(RngAlgorithm::ChaCha, &mix(1, 1)));
    for _ in 0..n {
        let raw = strat.new_tree(&mut runner).unwrap().current();
        let case = norm::normalize(&raw, &norm::NormOpts { allow_panic });
        let out = run_case(&case, &RunOpts { record_history: false, ..Default::default() });
        println!("{}status={:?} steps={} nontrivial={} violations={:?}\n", case.pretty(), out.status, out.steps, profiles::nontrivial(id, &case, &out), out.violations.iter().map(|v| format!("{}:{}", v.prop, v.clause)).collect::<Vec<_>>());
    }
}

fn main() {
    let args: Vec<String> = std::env::args().collect();
    let get = |name: &str| -> Option<String> { args.iter().position(|a| a == name).and_then(|i| args.get(i + 1).cloned()) };
    let has = |name: &str| args.iter().any(|a| a == name);
    let code = match args.get(1).map(|s| s.as_str()) {
        Some("check") => {
            let id = args.get(2).cloned().unwrap_or_default();
            if !profiles::ALL.contains(&id.as_str()) {
                eprintln!("unknown property {}", id);
                std::process::exit(2);
            }
            let tier = get("--tier").unwrap_or_else(|| std::env::var("VERIF_TIER").unwrap_or_else(|_| "quick".into()));
            let workers = get("--workers").and_then(|s| s.parse().ok()).unwrap_or(16);
            if has("--in-process") {
                cmd_check(&id, &tier, get("--cases").and_then(|s| s.parse().ok()), workers, has("--strict-harness"), get("--oracle"))
            } else {
                supervise_check(&id, &args)
            }
        }
        Some("replay") => {
            let path = args.get(2).map(|s| s.as_str()).unwrap_or("");
            if has("--in-process") {
                cmd_replay(path, has("--quiet"))
            } else {
                // in a child: the stored case may be one that kills the process it runs in
                let exe = std::env::current_exe().expect("current_exe");
                match std::process::Command::new(&exe).args(&args[1..]).arg("--in-process").status() {
                    Ok(st) => match st.code() {
                        Some(c) => c,
                        None => {
                            let prop = std::fs::read_to_string(path).ok().and_then(|b| serde_json::from_str::<ReplayFile>(&b).ok()).map(|rf| rf.property).unwrap_or_default();
                            if prop == "C14" || prop == "C15" {
                                println!("REPRODUCED property={} clause=process-died ({}): running this case killed the process ({})", prop, path, st);
                                1
                            } else {
                                println!("UNDECIDED: running this case killed the process ({})", st);
                                2
                            }
                        }
                    },
                    Err(_) => 2,
                }
            }
        }
        Some("os-search") => {
            // dv os-search <ID> [--oracle ID] [--cases N]: the os-thread stage on its own (used to validate that mode on the unchanged tree)
            let id = args.get(2).cloned().unwrap_or_default();
            if !profiles::ALL.contains(&id.as_str()) {
                eprintln!("unknown property {}", id);
                std::process::exit(2);
            }
            let oracle = get("--oracle").unwrap_or_else(|| id.clone());
            let per_worker = get("--cases").and_then(|s| s.parse().ok()).unwrap_or(3000u32);
            let seed = std::env::var("VERIF_SEED").ok().and_then(|s| s.parse::<u64>().ok()).unwrap_or(0);
            let home = verif_dir();
            let t0 = Instant::now();
            let (n, f) = os_thread_search(&id, &oracle, seed, per_worker, 16, &home.join("pending").join(format!("os-{}", oracle)), &home.join("replays").join(&oracle));
            println!("{} os-thread stage: {} cases in {:.1}s", oracle, n, t0.elapsed().as_secs_f64());
            let _ = std::fs::remove_dir_all(home.join("pending").join(format!("os-{}", oracle)));
            match f {
                Some((keep, program)) => {
                    println!("{}\nVIOLATION property={} replay={}", program, oracle, keep.display());
                    1
                }
                None => 0,
            }
        }
        Some("focus") => {
            // dv focus <replay.json> [--n N]: run the program of a replay file under N pseudo-random schedules and report how often
            // each oracle fires (triage aid, not a check: it uses its own LCG)
            let path = args.get(2).cloned().unwrap_or_default();
            let n: u64 = get("--n").and_then(|s| s.parse().ok()).unwrap_or(2000);
            let rf: ReplayFile = serde_json::from_str(&std::fs::read_to_string(&path).expect("read")).expect("parse");
            let mut tally: BTreeMap<String, u64> = BTreeMap::new();
            let mut x: u64 = 0x2545_F491_4F6C_DD1D;
            for i in 0..n {
                let mut case = rf.case.clone();
                let mut bytes = vec![];
                for _ in 0..200 {
                    x ^= x << 13;
                    x ^= x >> 7;
                    x ^= x << 17;
                    bytes.push((x >> 24) as u8);
                }
                case.sched = match i % 3 {
                    0 => Sched::Walk { stay: [0u8, 64, 128, 192][(i / 3 % 4) as usize], bytes, tail: Tail::RoundRobin },
                    1 => Sched::Pct { prio: bytes[..10].to_vec(), changes: (0..4).map(|k| (bytes[10 + k] % 10, (bytes[20 + k] % 72) as u16, bytes[30 + k] % 40)).collect() },
                    _ => Sched::Delay { points: (0..4).map(|k| (bytes[10 + k] % 10, (bytes[20 + k] % 72) as u16, bytes[30 + k])).collect(), rr: bytes[0] & 1 == 1 },
                };
                let out = run_case(&case, &RunOpts::default());
                if out.violations.is_empty() {
                    *tally.entry(format!("ok ({:?})", out.status).chars().take(30).collect()).or_insert(0) += 1;
                }
                for v in out.violations.iter() {
                    *tally.entry(format!("{}:{}", v.prop, v.clause)).or_insert(0) += 1;
                }
            }
            println!("{}", rf.case.pretty());
            for (k, v) in tally {
                println!("{:>8}  {}", v, k);
            }
            0
        }
        Some("fuzz-decode") => {
            // dv fuzz-decode <ID> <artifact>: decode a libFuzzer input exactly as the sched_fuzz target does, run it,
            // and (if it violates <ID>) write a replay file and print the VIOLATION line
            let id = args.get(2).cloned().unwrap_or_default();
            let path = args.get(3).cloned().unwrap_or_default();
            cmd_fuzz_decode(&id, &path)
        }
        Some("entropy") => {
            measure_entropy(args.get(2).map(|s| s.as_str()).unwrap_or("C01"), 2000);
            0
        }
        Some("gen") => {
            cmd_gen(args.get(2).map(|s| s.as_str()).unwrap_or("C01"), get("--n").and_then(|s| s.parse().ok()).unwrap_or(5));
            0
        }
        _ => {
            eprintln!("usage: dv check <ID> [--tier quick|thorough] [--cases N] [--workers N] | dv replay <file> [--quiet] | dv gen <ID> [--n N]");
            2
        }
    };
    std::process::exit(code);
}

fn cmd_fuzz_decode(id: &str, path: &str) -> i32 {
    let data = match std::fs::read(path) {
        Ok(d) => d,
        Err(e) => {
            eprintln!("cannot read {}: {}", path, e);
            return 2;
        }
    };
    let prof = profiles::profile(id);
    let allow_panic = prof.shape == gen::Shape::Panic;
    let raw = match dv::decode::case_from_bytes(&prof, &data) {
        Some(c) => c,
        None => {
            let mut seed = [0u8; 32];
            let mut x: u64 = 0xcbf2_9ce4_8422_2325;
            for (i, b) in data.iter().enumerate() {
                x = (x ^ *b as u64).wrapping_mul(0x100_0000_01B3);
                seed[i % 32] ^= (x >> 32) as u8;
            }
            let strat = gen::case_strategy(&prof);
            let mut runner = TestRunner::new_with_rng(Config::default(), TestRng::from_seed(RngAlgorithm::ChaCha, &seed));
            strat.new_tree(&mut runner).unwrap().current()
        }
    };
    let case = norm::normalize(&raw, &norm::NormOpts { allow_panic });
    let out = run_case(&case, &RunOpts { record_history: true, ..Default::default() });
    print_outcome(&case, &out);
    if let Some(v) = violations_for(&out, id).first() {
        let rdir = verif_dir().join("replays").join(id);
        let p = write_replay(id, &case, &out, v, 0, &rdir);
        println!("VIOLATION property={} replay={}", id, p.display());
        return 1;
    }
    println!("no violation of {} on this input", id);
    0
}

#[allow(dead_code)]
pub fn measure_entropy(id: &str, n: usize) {
    let prof = profiles::profile(id);
    let strat = gen::case_strategy(&prof);
    let mut max = 0;
    let mut total = 0;
    for i in 0..n {
        let rng = TestRng::from_seed(RngAlgorithm::Recorder, &mix(7, i as u64));
        let mut runner = TestRunner::new_with_rng(Config::default(), rng);
        let _ = strat.new_tree(&mut runner).unwrap().current();
        let used = runner.bytes_used().len();
        max = max.max(used);
        total += used;
    }
    println!("{}: entropy per case: mean {} bytes, max {} bytes over {} cases", id, total / n, max, n);
}
