//! Self-tests of the controlled runtime: the semantics the oracles rely on.
use std::sync::Arc;
use vsched::rt::{self, Chooser, Config, Status, StepInfo, TaskId};
use vsched::sync::{Condvar, Mutex};
use vsched::thread;

struct Lcg(u64);
impl Chooser for Lcg {
    fn choose(&mut self, runnable: &[TaskId], _c: Option<usize>, _i: &StepInfo) -> usize {
        self.0 = self.0.wrapping_mul(6364136223846793005).wrapping_add(1442695040888963407);
        ((self.0 >> 33) as usize) % runnable.len()
    }
}

fn run(seed: u64, f: impl FnOnce() + 'static) -> rt::RunResult {
    rt::run(Config::default(), Box::new(Lcg(seed)), Box::new(f))
}

#[test]
fn mutex_is_exclusive_and_counts_are_exact() {
    for seed in 0..300 {
        let r = run(seed, || {
            let m = Arc::new(Mutex::new(0u32));
            let hs: Vec<_> = (0..3)
                .map(|_| {
                    let m = m.clone();
                    thread::spawn(move || {
                        for _ in 0..5 {
                            let mut g = m.lock().unwrap();
                            let v = *g;
                            thread::yield_now();
                            *g = v + 1;
                        }
                    })
                })
                .collect();
            for h in hs {
                h.join().unwrap();
            }
            assert_eq!(*m.lock().unwrap(), 15);
        });
        assert_eq!(r.status, Status::Completed, "seed {}", seed);
        assert_eq!(r.unfinished_tasks, 0);
    }
}

#[test]
fn lost_notification_is_a_detected_deadlock_on_some_schedules() {
    // the classic bug: notify without the flag; some schedules lose the notification
    let mut deadlocks = 0;
    let mut completed = 0;
    for seed in 0..400 {
        let r = run(seed, || {
            let pair = Arc::new((Mutex::new(()), Condvar::new()));
            let p2 = pair.clone();
            let h = thread::spawn(move || {
                let g = p2.0.lock().unwrap();
                let _g = p2.1.wait(g).unwrap();
            });
            pair.1.notify_one();
            h.join().unwrap();
        });
        match r.status {
            Status::Deadlock => deadlocks += 1,
            Status::Completed => completed += 1,
            s => panic!("unexpected {:?}", s),
        }
    }
    assert!(deadlocks > 0 && completed > 0, "deadlocks {} completed {}", deadlocks, completed);
}

#[test]
fn park_token_is_not_lost_and_quiescence_is_reached() {
    for seed in 0..200 {
        let r = run(seed, || {
            let t = thread::spawn(|| {
                thread::park();
            });
            t.thread().unpark();
            t.join().unwrap();
            // a task blocked forever elsewhere does not prevent quiescence detection
            let _blocked = thread::spawn(|| loop {
                thread::park();
            });
            rt::wait_quiescent();
        });
        assert_eq!(r.status, Status::Completed, "seed {}", seed);
        assert_eq!(r.quiescences, 1);
        assert_eq!(r.unfinished_tasks, 1);
    }
}

#[test]
fn panics_are_per_task_and_poison_only_the_guarded_mutex() {
    for seed in 0..100 {
        let r = run(seed, || {
            let m = Arc::new(Mutex::new(1));
            let m2 = m.clone();
            let h = thread::spawn(move || {
                let _g = m2.lock().unwrap();
                panic!("boom");
            });
            assert!(h.join().is_err());
            assert!(!thread::panicking());
            assert!(m.lock().is_err(), "mutex held across a panic is poisoned");
            let other = Mutex::new(2);
            assert!(other.lock().is_ok());
        });
        assert_eq!(r.status, Status::Completed, "seed {}", seed);
    }
}

#[test]
fn try_lock_observes_a_held_lock_before_its_release() {
    // the release of a mutex that has been try_lock'ed is a scheduling point: some schedule sees WouldBlock
    let mut saw_busy = false;
    for seed in 0..300 {
        let flag = Arc::new(std::sync::atomic::AtomicBool::new(false));
        let f2 = flag.clone();
        let r = run(seed, move || {
            let m = Arc::new(Mutex::new(()));
            let _ = m.try_lock().map(|g| drop(g));
            let m2 = m.clone();
            let h = thread::spawn(move || {
                let g = m2.lock().unwrap();
                drop(g);
            });
            if m.try_lock().is_err() {
                f2.store(true, std::sync::atomic::Ordering::SeqCst);
            }
            h.join().unwrap();
        });
        assert_eq!(r.status, Status::Completed);
        saw_busy |= flag.load(std::sync::atomic::Ordering::SeqCst);
    }
    assert!(saw_busy);
}
