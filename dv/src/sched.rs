//! Choosers: turn a generated `Sched` value into scheduling decisions.

use crate::case::{Sched, Tail};
use vsched::rt::{Chooser, StepInfo, TaskId};

pub fn make_chooser(s: &Sched) -> Box<dyn Chooser> {
    match s.clone() {
        Sched::Walk { stay, bytes, tail } => Box::new(Walk { stay, bytes, pos: 0, tail }),
        Sched::Pct { prio, changes } => Box::new(Pct { prio, changes }),
        Sched::Delay { points, rr } => Box::new(Delay { points, rr }),
        Sched::Trace { choices } => Box::new(TraceReplay { choices, pos: 0 }),
    }
}

fn tail_choice(tail: Tail, runnable: &[TaskId], current: Option<usize>, last: TaskId) -> usize {
    match tail {
        Tail::Stay => current.unwrap_or(0),
        Tail::RoundRobin => {
            // first runnable task with an id greater than the one that ran last, wrapping around
            runnable.iter().position(|&t| t > last).unwrap_or(0)
        }
    }
}

struct Walk {
    stay: u8,
    bytes: Vec<u8>,
    pos: usize,
    tail: Tail,
}

impl Chooser for Walk {
    fn choose(&mut self, runnable: &[TaskId], current: Option<usize>, _info: &StepInfo) -> usize {
        if self.pos >= self.bytes.len() {
            // `last` is unknown here when the current task blocked; use the step parity-free rule: lowest id
            return match self.tail {
                Tail::Stay => current.unwrap_or(0),
                Tail::RoundRobin => match current {
                    Some(c) => (c + 1) % runnable.len(),
                    None => 0,
                },
            };
        }
        let b = self.bytes[self.pos];
        self.pos += 1;
        if let Some(c) = current {
            if b < self.stay {
                return c;
            }
            // pick among all runnable with the remaining range
            let span = 256 - self.stay as usize;
            let v = (b - self.stay) as usize;
            return (v * runnable.len()) / span;
        }
        (b as usize * runnable.len()) >> 8
    }

    fn pick(&mut self, n: usize) -> usize {
        if self.pos >= self.bytes.len() {
            return 0;
        }
        let b = self.bytes[self.pos];
        self.pos += 1;
        (b as usize * n) >> 8
    }
}

struct Pct {
    prio: Vec<u8>,
    changes: Vec<(u8, u16, u8)>,
}

impl Pct {
    fn prio_of(&self, t: TaskId) -> i32 {
        // tasks beyond the generated vector get a default that decreases with the id
        match self.prio.get(t) {
            Some(p) => *p as i32 * 4,
            None => 300 - t as i32,
        }
    }
}

impl Chooser for Pct {
    fn choose(&mut self, runnable: &[TaskId], _current: Option<usize>, info: &StepInfo) -> usize {
        // apply change points: when task t has reached local step s its priority becomes p
        for &(t, s, p) in self.changes.iter() {
            let t = t as usize;
            if t < info.local_steps.len() && info.local_steps[t] == s as u32 {
                if t >= self.prio.len() {
                    self.prio.resize(t + 1, 64);
                }
                self.prio[t] = p;
            }
        }
        let mut best = 0;
        let mut best_p = i32::MIN;
        for (i, &t) in runnable.iter().enumerate() {
            let p = self.prio_of(t);
            if p > best_p {
                best_p = p;
                best = i;
            }
        }
        best
    }
}

struct Delay {
    points: Vec<(u8, u16, u8)>,
    rr: bool,
}

impl Chooser for Delay {
    fn choose(&mut self, runnable: &[TaskId], current: Option<usize>, info: &StepInfo) -> usize {
        match current {
            Some(c) => {
                let t = runnable[c];
                let ls = info.local_steps[t];
                for &(pt, ps, pick) in self.points.iter() {
                    if pt as usize == t && ps as u32 == ls {
                        // forced pre-emption: run somebody else
                        let others = runnable.len() - 1;
                        let k = (pick as usize * others) >> 8;
                        return if k >= c { k + 1 } else { k };
                    }
                }
                c
            }
            None => {
                if self.rr {
                    (info.step as usize) % runnable.len()
                } else {
                    0
                }
            }
        }
    }
}

struct TraceReplay {
    choices: Vec<u8>,
    pos: usize,
}

impl Chooser for TraceReplay {
    fn choose(&mut self, runnable: &[TaskId], current: Option<usize>, _info: &StepInfo) -> usize {
        if self.pos >= self.choices.len() {
            return tail_choice(Tail::Stay, runnable, current, 0);
        }
        let want = self.choices[self.pos] as usize;
        self.pos += 1;
        match runnable.iter().position(|&t| t == want) {
            Some(i) => i,
            None => usize::MAX, // diverged
        }
    }

    fn pick(&mut self, n: usize) -> usize {
        if self.pos >= self.choices.len() {
            return 0;
        }
        let v = (self.choices[self.pos] & 0x7f) as usize;
        self.pos += 1;
        v.min(n - 1)
    }
}
