extern crate desync;
use desync::*;
use desync::scheduler::*;
use std::sync::atomic::{AtomicBool, Ordering};
use std::sync::*;
use std::thread;
use std::time::{Duration, Instant};

/// A panic payload whose destructor panics in turn (dropped by whoever catches the first panic and discards the value)
struct Bomb;
impl Drop for Bomb { fn drop(&mut self) { if !thread::panicking() { panic!("destructor of the panic payload"); } } }

#[test]
fn work_waiting_for_a_thread_when_the_payload_of_a_job_panic_has_a_panicking_destructor() {
    let sch = scheduler();
    sch.set_max_threads(1);
    sch.despawn_threads_if_overloaded();

    let go = Arc::new(AtomicBool::new(false));
    let ran = Arc::new(AtomicBool::new(false));
    let panics = Desync::new(0u32);
    let healthy = Desync::new(0u32);

    // the only pool thread is busy with a job that is going to panic
    let go2 = Arc::clone(&go);
    panics.desync(move |_| {
        while !go2.load(Ordering::SeqCst) { thread::sleep(Duration::from_millis(1)); }
        std::panic::panic_any(Bomb);
    });
    thread::sleep(Duration::from_millis(100));

    // an operation on another object is accepted: it waits for the thread to become free
    let ran2 = Arc::clone(&ran);
    healthy.desync(move |_| { ran2.store(true, Ordering::SeqCst); });
    thread::sleep(Duration::from_millis(100));
    assert!(!ran.load(Ordering::SeqCst));

    // the job occupying the thread finishes (by panicking): nothing else is scheduled from here on
    go.store(true, Ordering::SeqCst);
    let t0 = Instant::now();
    while !ran.load(Ordering::SeqCst) && t0.elapsed() < Duration::from_secs(5) { thread::sleep(Duration::from_millis(5)); }
    let ok = ran.load(Ordering::SeqCst);
    std::mem::forget(panics);
    assert!(ok, "the operation on the healthy object never ran: the pool lost its thread and nobody replaced it");
}
