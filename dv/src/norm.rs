//! Normalisation: maps the raw generated indices into valid ranges and enforces the API
//! preconditions of DESIGN.md 5.2 by rewriting offending operations to `Nop` (construction, not
//! rejection: every generated value yields a runnable case, and shrinking stays effective).
//!
//! Applied exactly once, to generated cases; replay files store the normalised case.

use crate::case::*;

pub const NSLOTS: usize = 4;

fn sc(raw: u8, n: usize) -> u8 {
    if n == 0 {
        0
    } else {
        ((raw as usize * n) >> 8) as u8
    }
}

#[derive(Clone, Copy, PartialEq, Debug)]
enum SK {
    FutDesync,
    FutSync,
    After,
    Suspend,
    Resumer,
}

#[derive(Clone, Copy, Debug)]
struct SlotInfo {
    kind: SK,
    obj: usize,
    polled: bool,
    /// the body awaits futures of other objects: once polled, those objects are held too
    nested_await: bool,
}

fn has_nested_await(steps: &[Step]) -> bool {
    steps.iter().any(|s| match s {
        Step::AwaitFutSync { .. } | Step::AwaitFutDesync { .. } => true,
        Step::NestedDesync { body, .. } | Step::NestedSync { body, .. } | Step::NestedFutDesync { body, .. } => has_nested_await(body),
        _ => false,
    })
}

pub struct NormOpts {
    pub allow_panic: bool,
}

fn norm_steps(steps: &[Step], cur: usize, cfg: &Cfg, in_future: bool, depth: usize, opts: &NormOpts) -> Vec<Step> {
    let objects = cfg.objects as usize;
    let higher = objects - cur - 1;
    let mut out = vec![];
    for s in steps {
        let up = |raw: u8| -> Option<u8> {
            if higher == 0 || depth >= 2 {
                None
            } else {
                Some((cur + 1 + sc(raw, higher) as usize) as u8)
            }
        };
        let ns = match s {
            Step::Touch => Some(Step::Touch),
            Step::Yield => Some(Step::Yield),
            Step::NestedDesync { o, body, .. } => up(*o).map(|o2| Step::NestedDesync { o: o2, body: norm_steps(body, o2 as usize, cfg, false, depth + 1, opts), id: 0 }),
            Step::NestedSync { o, body, .. } => up(*o).map(|o2| Step::NestedSync { o: o2, body: norm_steps(body, o2 as usize, cfg, false, depth + 1, opts), id: 0 }),
            Step::NestedFutDesync { o, body, .. } => up(*o).map(|o2| Step::NestedFutDesync { o: o2, body: norm_steps(body, o2 as usize, cfg, true, depth + 1, opts), id: 0 }),
            Step::AwaitFutSync { o, body, .. } if in_future && cfg.pool > 0 => up(*o).map(|o2| Step::AwaitFutSync { o: o2, body: norm_steps(body, o2 as usize, cfg, true, depth + 1, opts), id: 0 }),
            Step::AwaitFutDesync { o, body, .. } if in_future && cfg.pool > 0 => up(*o).map(|o2| Step::AwaitFutDesync { o: o2, body: norm_steps(body, o2 as usize, cfg, true, depth + 1, opts), id: 0 }),
            Step::Release { o } => up(*o).map(|o2| Step::Release { o: o2 }),
            Step::OpenGate { g } if cfg.gates > 0 => Some(Step::OpenGate { g: sc(*g, cfg.gates as usize) }),
            Step::BlockOnGate { g } if cfg.gates > 0 && !in_future => Some(Step::BlockOnGate { g: sc(*g, cfg.gates as usize) }),
            Step::AwaitGate { g } if cfg.gates > 0 && in_future => Some(Step::AwaitGate { g: sc(*g, cfg.gates as usize) }),
            Step::SelfWake if in_future => Some(Step::SelfWake),
            Step::Panic if opts.allow_panic => Some(Step::Panic),
            _ => None,
        };
        out.push(ns.unwrap_or(Step::Touch));
    }
    out
}

/// does a body (recursively) contain a step that blocks the running thread on another object?
fn body_blocks(steps: &[Step]) -> bool {
    steps.iter().any(|s| match s {
        Step::NestedSync { .. } | Step::Release { .. } | Step::BlockOnGate { .. } => true,
        Step::NestedDesync { .. } | Step::NestedFutDesync { .. } => false,
        Step::AwaitFutSync { .. } | Step::AwaitFutDesync { .. } => true,
        _ => false,
    })
}

pub fn normalize(raw: &Case, opts: &NormOpts) -> Case {
    let mut case = raw.clone();
    let cfg = &mut case.cfg;
    cfg.objects = cfg.objects.clamp(1, 4);
    cfg.pre_open = cfg.pre_open.iter().filter(|_| cfg.gates > 0).map(|g| sc(*g, cfg.gates as usize)).collect();
    cfg.pre_open.sort();
    cfg.pre_open.dedup();
    let base_cfg = case.cfg.clone();
    let objects = base_cfg.objects as usize;
    let mut pool_now = base_cfg.pool;
    let mut stream_used = vec![false; base_cfg.streams as usize];
    let multi_phase = case.phases.len() > 1;
    if multi_phase {
        case.cfg.root_holds = true;
    }
    // callers of earlier phases may still be inside a call when a later phase runs: count users over all phases
    let all_callers: Vec<Vec<Op>> = case.phases.iter().flat_map(|p| p.callers.iter().cloned()).collect();
    let all_users = object_users(&all_callers, objects);
    // objects some operation of which may block the thread that runs it (a nested sync, a wait on a gate, a last-owner drop):
    // their queues must not be run from inside somebody's wake() call (inline tasks), or the caller of wake() - who may be the
    // very party the blocked operation is waiting for - is stuck
    let mut may_block = vec![false; objects];
    for ops in all_callers.iter() {
        for op in ops.iter() {
            if let Op::Desync { o, body, .. } | Op::Sync { o, body, .. } | Op::TrySync { o, body, .. } | Op::FutDesync { o, body, .. } | Op::FutSync { o, body, .. } | Op::After { o, body, .. } | Op::PipeIn { o, body, .. } | Op::Pipe { o, body, .. } = op {
                // (a job that captures handles for nested steps may also be the one that drops the last of them: Desync::drop blocks)
                let captures = body.iter().any(|s| matches!(s, Step::NestedDesync { .. } | Step::NestedSync { .. } | Step::NestedFutDesync { .. } | Step::AwaitFutSync { .. } | Step::AwaitFutDesync { .. } | Step::Release { .. }));
                if body_blocks(body) || captures {
                    may_block[sc(*o, objects) as usize] = true;
                }
            }
        }
    }
    let may_block = may_block;
    // the lowest pool maximum in force at any point of the case
    let min_pool = case.phases.iter().flat_map(|p| p.root.iter()).filter_map(|a| match a { RootAct::SetPool { n } | RootAct::SetPoolPublic { n, .. } => Some(*n), _ => None }).chain(std::iter::once(base_cfg.pool)).min().unwrap();
    for ph in case.phases.iter_mut() {
        // the pool maximum in force during this phase decides which pool-0 scope rules apply
        for act in ph.root.iter() {
            match act {
                RootAct::SetPool { n } | RootAct::SetPoolPublic { n, .. } => pool_now = *n,
                _ => {}
            }
        }
        let mut cfg = base_cfg.clone();
        cfg.pool = pool_now;
        let cfg = cfg;
        for act in ph.root.iter_mut() {
            if let RootAct::OpenGate { g } | RootAct::Rewake { g } = act {
                *g = if cfg.gates > 0 { sc(*g, cfg.gates as usize) } else { 0 };
            }
        }
        if cfg.gates == 0 {
            ph.root.retain(|a| !matches!(a, RootAct::OpenGate { .. } | RootAct::Rewake { .. }));
        }
        for wk in ph.wakers.iter_mut() {
            for op in wk.iter_mut() {
                if let WOp::Open { g } | WOp::Rewake { g } = op {
                    if cfg.gates == 0 {
                        *op = WOp::Yield;
                    } else {
                        *g = sc(*g, cfg.gates as usize);
                    }
                }
            }
        }
        ph.producers.truncate(cfg.streams as usize);
        for prog in ph.producers.iter_mut() {
            // nothing is pushed into a stream after it has ended
            if let Some(k) = prog.iter().position(|p| matches!(p, POp::Close)) {
                prog.truncate(k + 1);
            }
        }
        let mut done_callers: Vec<Vec<Op>> = vec![];
        // With no pool thread, awaiting a future only makes progress if the awaiting task itself can run the queue,
        // which the library promises only when no other context is using the object (C07's scope): at pool 0 a
        // future is awaited / polled only on objects that a single caller uses.
        let users = all_users.clone();
        for (ci, ops) in ph.callers.iter().enumerate() {
            let mut held = vec![true; objects];
            let mut slots: [Option<SlotInfo>; NSLOTS] = [None; NSLOTS];
            let mut pslots: [Option<(usize, usize)>; NSLOTS] = [None; NSLOTS];
            let mut paused = [false; NSLOTS];
            let mut out: Vec<Op> = vec![];
            // the object this caller currently "holds" in the lock-ordering sense (unfinished future_sync,
            // active suspension, polled-but-unfinished future): blocking is only allowed on higher objects
            let hold_of = |slots: &[Option<SlotInfo>; NSLOTS]| -> Option<(usize, usize)> {
                slots.iter().enumerate().filter_map(|(i, s)| s.map(|s| (i, s))).find(|(_, s)| matches!(s.kind, SK::FutSync | SK::Suspend | SK::Resumer) || s.polled).map(|(i, s)| (i, if s.polled && s.nested_await { usize::MAX } else { s.obj }))
            };
            for op in ops.iter() {
                let hold = hold_of(&slots);
                let can_block_on = |t: usize| hold.map_or(true, |(_, m)| t > m);
                let o_of = |raw: u8| sc(raw, objects) as usize;
                let sl = |raw: u8| sc(raw, NSLOTS) as usize;
                let nop = match op {
                    Op::Nop => Op::Nop,
                    Op::Yield => Op::Yield,
                    Op::Desync { o, body, .. } => {
                        let o = o_of(*o);
                        if held[o] {
                            Op::Desync { o: o as u8, body: norm_steps(body, o, &cfg, false, 0, opts), id: 0 }
                        } else {
                            Op::Nop
                        }
                    }
                    Op::Sync { o, body, .. } => {
                        let o = o_of(*o);
                        if held[o] && can_block_on(o) {
                            Op::Sync { o: o as u8, body: norm_steps(body, o, &cfg, false, 0, opts), id: 0 }
                        } else {
                            Op::Nop
                        }
                    }
                    Op::TrySync { o, body, probe, .. } => {
                        let o = o_of(*o);
                        let body = norm_steps(body, o, &cfg, false, 0, opts);
                        // a try_sync closure that blocks is a blocking op
                        if held[o] && (!body_blocks(&body) || can_block_on(o)) {
                            Op::TrySync { o: o as u8, body, probe: *probe, id: 0 }
                        } else {
                            Op::Nop
                        }
                    }
                    Op::FutDesync { o, body, slot, .. } => {
                        let (o, s) = (o_of(*o), sl(*slot));
                        if held[o] && slots[s].is_none() {
                            let body = norm_steps(body, o, &cfg, true, 0, opts);
                            slots[s] = Some(SlotInfo { kind: SK::FutDesync, obj: o, polled: false, nested_await: has_nested_await(&body) });
                            Op::FutDesync { o: o as u8, body, slot: s as u8, id: 0 }
                        } else {
                            Op::Nop
                        }
                    }
                    Op::After { o, g, body, slot, .. } => {
                        let (o, s) = (o_of(*o), sl(*slot));
                        if held[o] && slots[s].is_none() && cfg.gates > 0 {
                            slots[s] = Some(SlotInfo { kind: SK::After, obj: o, polled: false, nested_await: false });
                            Op::After { o: o as u8, g: sc(*g, cfg.gates as usize), body: norm_steps(body, o, &cfg, false, 0, opts), slot: s as u8, id: 0 }
                        } else {
                            Op::Nop
                        }
                    }
                    Op::FutSync { o, body, slot, .. } => {
                        let (o, s) = (o_of(*o), sl(*slot));
                        // at most one hold at a time, taken in increasing object order
                        if held[o] && slots[s].is_none() && hold.is_none() {
                            let body = norm_steps(body, o, &cfg, true, 0, opts);
                            slots[s] = Some(SlotInfo { kind: SK::FutSync, obj: o, polled: false, nested_await: has_nested_await(&body) });
                            Op::FutSync { o: o as u8, body, slot: s as u8, id: 0 }
                        } else {
                            Op::Nop
                        }
                    }
                    Op::Await { slot } => {
                        let s = sl(*slot);
                        match slots[s] {
                            Some(si) if cfg.pool == 0 && users[si.obj] > 1 => {
                                // fall back to dropping the future (future_sync: cancel)
                                slots[s] = None;
                                if si.polled { Op::Await { slot: s as u8 } } else { Op::DropFut { slot: s as u8 } }
                            }
                            Some(si) if matches!(si.kind, SK::FutDesync | SK::FutSync | SK::After) && (hold.map_or(true, |(hs, _)| hs == s) || can_block_on(si.obj)) => {
                                slots[s] = None;
                                Op::Await { slot: s as u8 }
                            }
                            _ => Op::Nop,
                        }
                    }
                    Op::AwaitInline { slot } => {
                        let s = sl(*slot);
                        match slots[s] {
                            // (with no pool thread the wake-up's caller would become a second context running the queue)
                            Some(si) if cfg.pool >= 1 && !may_block[si.obj] && matches!(si.kind, SK::FutDesync | SK::After) && hold.map_or(true, |(hs, _)| hs == s) => {
                                slots[s] = None;
                                Op::AwaitInline { slot: s as u8 }
                            }
                            _ => Op::Nop,
                        }
                    }
                    Op::AwaitJoin { a, b } => {
                        let (sa, sb) = (sl(*a), sl(*b));
                        let ok = |si: Option<SlotInfo>| matches!(si, Some(si) if matches!(si.kind, SK::FutDesync | SK::After) && !(cfg.pool == 0 && users[si.obj] > 1));
                        // (the only holds this caller may have are the two futures themselves)
                        let holds_ok = slots.iter().enumerate().all(|(i, s)| i == sa || i == sb || !matches!(s, Some(s) if matches!(s.kind, SK::FutSync | SK::Suspend | SK::Resumer) || s.polled));
                        if sa != sb && ok(slots[sa]) && ok(slots[sb]) && holds_ok {
                            slots[sa] = None;
                            slots[sb] = None;
                            Op::AwaitJoin { a: sa as u8, b: sb as u8 }
                        } else {
                            Op::Nop
                        }
                    }
                    Op::SyncWait { slot } => {
                        let s = sl(*slot);
                        match slots[s] {
                            // (.sync() after a poll: the queue the poll parked is resumed by a pool thread when the
                            // operation is woken, so it needs one)
                            Some(si) if si.kind == SK::FutDesync && ((!si.polled && can_block_on(si.obj)) || (si.polled && min_pool >= 1 && hold.map_or(true, |(hs, _)| hs == s))) => {
                                slots[s] = None;
                                Op::SyncWait { slot: s as u8 }
                            }
                            _ => Op::Nop,
                        }
                    }
                    Op::PollOnce { slot } => {
                        let s = sl(*slot);
                        match slots[s] {
                            Some(si) if cfg.pool == 0 && users[si.obj] > 1 => Op::Nop,
                            Some(si) if matches!(si.kind, SK::FutDesync | SK::FutSync | SK::After) && hold.map_or(true, |(hs, _)| hs == s) => {
                                slots[s] = Some(SlotInfo { polled: true, ..si });
                                Op::PollOnce { slot: s as u8 }
                            }
                            _ => Op::Nop,
                        }
                    }
                    Op::DropFut { slot } | Op::Detach { slot } => {
                        let s = sl(*slot);
                        let detach = matches!(op, Op::Detach { .. });
                        match slots[s] {
                            Some(si) if si.kind == SK::Suspend => {
                                slots[s] = None;
                                Op::DropFut { slot: s as u8 }
                            }
                            Some(si) if matches!(si.kind, SK::FutDesync | SK::FutSync | SK::After) => {
                                slots[s] = None;
                                if cfg.pool == 0 && si.polled {
                                    // with no pool thread a future that started draining its queue must be awaited
                                    Op::Await { slot: s as u8 }
                                } else if detach && si.kind == SK::FutDesync {
                                    Op::Detach { slot: s as u8 }
                                } else {
                                    Op::DropFut { slot: s as u8 }
                                }
                            }
                            _ => Op::Nop,
                        }
                    }
                    Op::Release { o } => {
                        let o = o_of(*o);
                        let borrowed = slots.iter().flatten().any(|s| s.obj == o && s.kind == SK::FutSync) || pslots.iter().flatten().any(|p| p.1 == o);
                        if held[o] && !borrowed && can_block_on(o) {
                            held[o] = false;
                            Op::Release { o: o as u8 }
                        } else {
                            Op::Nop
                        }
                    }
                    Op::OpenGate { g } => {
                        if cfg.gates > 0 {
                            Op::OpenGate { g: sc(*g, cfg.gates as usize) }
                        } else {
                            Op::Nop
                        }
                    }
                    Op::Rewake { g } => {
                        if cfg.gates > 0 {
                            Op::Rewake { g: sc(*g, cfg.gates as usize) }
                        } else {
                            Op::Nop
                        }
                    }
                    Op::WaitFor { caller, idx, ev } => {
                        if ci == 0 || hold.is_some() {
                            Op::Nop
                        } else {
                            let c = sc(*caller, ci) as usize;
                            let n = done_callers[c].len();
                            let k = sc(*idx, n) as usize;
                            let ok = n > 0 && matches!(done_callers[c][k], Op::Desync { .. } | Op::Sync { .. } | Op::TrySync { .. } | Op::FutDesync { .. } | Op::FutSync { .. } | Op::After { .. });
                            // waiting for the *end* of a future_sync op that its owner may hold unpolled is not sound
                            let fs = n > 0 && matches!(done_callers[c][k], Op::FutSync { .. }) && *ev == Ev::End;
                            if ok && !fs {
                                Op::WaitFor { caller: c as u8, idx: k as u8, ev: *ev }
                            } else {
                                Op::Nop
                            }
                        }
                    }
                    Op::Suspend { o, slot, .. } => {
                        let (o, s) = (o_of(*o), sl(*slot));
                        if cfg.level == Level::Queue && held[o] && slots[s].is_none() && hold.is_none() {
                            slots[s] = Some(SlotInfo { kind: SK::Suspend, obj: o, polled: false, nested_await: false });
                            Op::Suspend { o: o as u8, slot: s as u8, id: 0 }
                        } else {
                            Op::Nop
                        }
                    }
                    Op::AwaitSuspend { slot } => {
                        let s = sl(*slot);
                        match slots[s] {
                            Some(si) if si.kind == SK::Suspend && cfg.pool == 0 && users[si.obj] > 1 => {
                                // same scope rule as for awaiting any other future at pool 0
                                slots[s] = None;
                                Op::DropFut { slot: s as u8 }
                            }
                            Some(si) if si.kind == SK::Suspend => {
                                slots[s] = Some(SlotInfo { kind: SK::Resumer, ..si });
                                Op::AwaitSuspend { slot: s as u8 }
                            }
                            _ => Op::Nop,
                        }
                    }
                    Op::Resume { slot } | Op::DropResumer { slot } => {
                        let s = sl(*slot);
                        match slots[s] {
                            Some(si) if si.kind == SK::Resumer => {
                                slots[s] = None;
                                if matches!(op, Op::Resume { .. }) {
                                    Op::Resume { slot: s as u8 }
                                } else {
                                    Op::DropResumer { slot: s as u8 }
                                }
                            }
                            _ => Op::Nop,
                        }
                    }
                    Op::PipeIn { o, s, body, .. } => {
                        let o = o_of(*o);
                        let st = sc(*s, cfg.streams as usize) as usize;
                        if cfg.level == Level::Desync && cfg.streams > 0 && held[o] && !stream_used[st] && can_block_on(o) {
                            stream_used[st] = true;
                            Op::PipeIn { o: o as u8, s: st as u8, body: norm_pipe_body(body, o, &cfg), id: 0 }
                        } else {
                            Op::Nop
                        }
                    }
                    Op::Pipe { o, s, depth, body, slot, .. } => {
                        let o = o_of(*o);
                        let st = sc(*s, cfg.streams as usize) as usize;
                        let ps = sl(*slot);
                        if cfg.level == Level::Desync && cfg.streams > 0 && held[o] && !stream_used[st] && pslots[ps].is_none() && can_block_on(o) {
                            stream_used[st] = true;
                            pslots[ps] = Some((st, o));
                            Op::Pipe { o: o as u8, s: st as u8, depth: 1 + sc(*depth, 5), body: norm_pipe_body(body, o, &cfg), slot: ps as u8, id: 0 }
                        } else {
                            Op::Nop
                        }
                    }
                    Op::Consume { slot, k } => {
                        let ps = sl(*slot);
                        match pslots[ps] {
                            // (a pipe paused with a depth of 0 delivers nothing until its owner raises the depth again: the
                            // owner does that instead of waiting)
                            Some(_) if paused[ps] => {
                                paused[ps] = false;
                                Op::SetDepth { slot: ps as u8, depth: 1 + (*k % 5) }
                            }
                            Some((_, o)) if can_block_on(o) => Op::Consume { slot: ps as u8, k: 1 + (*k % 6) },
                            _ => Op::Nop,
                        }
                    }
                    Op::SetDepth { slot, depth } => {
                        let ps = sl(*slot);
                        if pslots[ps].is_some() {
                            // 0 pauses the pipe (nothing is read from the input while the buffer holds "at least 0" items)
                            let v = sc(*depth, 6);
                            paused[ps] = v == 5;
                            Op::SetDepth { slot: ps as u8, depth: if v == 5 { 0 } else { 1 + v } }
                        } else {
                            Op::Nop
                        }
                    }
                    Op::ConsumeInline { slot, drop_on_wake } => {
                        let ps = sl(*slot);
                        if pslots[ps].is_some() && paused[ps] {
                            paused[ps] = false;
                            Op::SetDepth { slot: ps as u8, depth: 2 }
                        } else if pslots[ps].is_some() && cfg.pool >= 1 {
                            pslots[ps] = None;
                            Op::ConsumeInline { slot: ps as u8, drop_on_wake: *drop_on_wake }
                        } else {
                            Op::Nop
                        }
                    }
                    Op::DropPipe { slot } => {
                        let ps = sl(*slot);
                        if pslots[ps].is_some() {
                            pslots[ps] = None;
                            paused[ps] = false;
                            Op::DropPipe { slot: ps as u8 }
                        } else {
                            Op::Nop
                        }
                    }
                    Op::Attempt { o, kind, .. } => {
                        let o = o_of(*o);
                        if opts.allow_panic && held[o] {
                            Op::Attempt { o: o as u8, kind: *kind, id: 0 }
                        } else {
                            Op::Nop
                        }
                    }
                };
                out.push(nop);
            }
            if cfg.pool == 0 {
                for s in 0..NSLOTS {
                    if let Some(si) = slots[s] {
                        if si.polled {
                            out.push(Op::Await { slot: s as u8 });
                        }
                    }
                }
            }
            done_callers.push(out);
        }
        ph.callers = done_callers;
        ph.must_finish_objs.retain(|o| (*o as usize) < objects);
        ph.expect_panicked.retain(|o| (*o as usize) < objects);
    }
    case.assign_ids();
    case
}

/// For every object, the number of callers whose programs refer to it (directly or in nested steps)
fn object_users(callers: &[Vec<Op>], objects: usize) -> Vec<usize> {
    fn sc8(raw: u8, n: usize) -> usize {
        (raw as usize * n) >> 8
    }
    fn steps_any_nested(steps: &[Step]) -> bool {
        steps.iter().any(|s| matches!(s, Step::NestedDesync { .. } | Step::NestedSync { .. } | Step::NestedFutDesync { .. } | Step::AwaitFutSync { .. } | Step::AwaitFutDesync { .. } | Step::Release { .. }))
    }
    // with few or no pool threads a queued job is run by whichever context drains its queue: every user of an object
    // is therefore also a (potential) user of the higher objects that queued jobs on it reach through nested steps
    let mut nested_async = vec![false; objects];
    let mut touched_by: Vec<Vec<bool>> = vec![];
    for ops in callers {
        let mut touched = vec![false; objects];
        for op in ops {
            match op {
                Op::Desync { o, body, .. } | Op::Sync { o, body, .. } | Op::TrySync { o, body, .. } | Op::FutDesync { o, body, .. } | Op::FutSync { o, body, .. } | Op::After { o, body, .. } | Op::PipeIn { o, body, .. } | Op::Pipe { o, body, .. } => {
                    let o = sc8(*o, objects);
                    touched[o] = true;
                    if steps_any_nested(body) {
                        // nested steps go to higher-numbered objects: count them all as touched
                        for t in touched.iter_mut().skip(o + 1) {
                            *t = true;
                        }
                        if !matches!(op, Op::Sync { .. } | Op::TrySync { .. } | Op::FutSync { .. }) {
                            nested_async[o] = true;
                        }
                    }
                }
                Op::Release { o } | Op::Suspend { o, .. } | Op::Attempt { o, .. } => touched[sc8(*o, objects)] = true,
                _ => {}
            }
        }
        touched_by.push(touched);
    }
    let mut users = vec![0usize; objects];
    for touched in touched_by.iter_mut() {
        for o in 0..objects {
            if touched[o] && nested_async[o] {
                for t in touched.iter_mut().skip(o + 1) {
                    *t = true;
                }
            }
        }
        for o in 0..objects {
            if touched[o] {
                users[o] += 1;
            }
        }
    }
    users
}

/// bodies of pipe processing functions: Touch / Yield / AwaitGate / NestedDesync only
fn norm_pipe_body(body: &[Step], cur: usize, cfg: &Cfg) -> Vec<Step> {
    let objects = cfg.objects as usize;
    body.iter()
        .map(|s| match s {
            Step::Yield => Step::Yield,
            Step::SelfWake => Step::SelfWake,
            Step::AwaitGate { g } if cfg.gates > 0 => Step::AwaitGate { g: sc(*g, cfg.gates as usize) },
            Step::NestedDesync { o, .. } if objects - cur - 1 > 0 => Step::NestedDesync { o: (cur + 1 + sc(*o, objects - cur - 1) as usize) as u8, body: vec![Step::Touch], id: 0 },
            _ => Step::Touch,
        })
        .collect()
}
