//! Obligations evaluated when the execution is quiescent (nothing can run without a new API call)
//! or deadlocked, and the attribution of unmet obligations to properties (DESIGN.md 4.2).

use crate::case::*;
use crate::interp::{ObjH, POOL_THREAD_NAME};
use crate::world::*;
use std::sync::Arc;
use vsched::rt;

#[derive(Clone, Debug)]
struct Cand {
    op: Option<OpId>,
    obj: usize,
    prop: &'static str,
    clause: &'static str,
    inv: u64,
    ret: u64,
    detail: String,
}

fn relevant(a: &OpRec) -> bool {
    a.accepted && !a.ended() && !a.cancelled && !a.busy && !a.panicked
}

/// Leaf obligations that are unmet right now: operations that should be able to make progress and do not.
/// `final_stage`: all gates are open and all streams closed, so nothing is legitimately waiting.
fn candidates(i: &Inner, only_objs: Option<&[u8]>, dormant_pool_threads: usize, live_pool_threads: usize, pool_task: &dyn Fn(usize) -> bool, started_with_pool_zero: bool) -> (Vec<Cand>, usize) {
    let mut out = vec![];
    let mut waiting_things = 0usize;
    let pool = i.cur_max;
    let in_scope = |o: usize| only_objs.map(|v| v.contains(&(o as u8))).unwrap_or(true);
    // C03 only promises progress while a pool thread is free or may still be spawned: a queue that is stuck
    // because every pool thread is stuck inside some other job is a consequence, not a root cause
    let pool_capacity = dormant_pool_threads >= 1 || live_pool_threads < pool;
    // who is awaiting what
    let mut awaited: Vec<OpId> = vec![];
    for c in i.callers.iter() {
        match c.stage {
            Stage::Awaiting(f) | Stage::SyncWaiting(f) => awaited.push(f),
            _ => {}
        }
    }
    // (1) calls that have not returned
    for (id, o) in i.ops.iter().enumerate() {
        if o.kind == Kind::Sync && o.panicked && o.inv != 0 && o.ret == 0 && !o.call_unwound && in_scope(o.obj) && i.callers.iter().any(|c| c.stage == Stage::InCall(id)) {
            // the closure of this very call panicked (wherever it was run): the call ends by propagating that, it does not hang
            waiting_things += 1;
            out.push(Cand { op: Some(id), obj: o.obj, prop: "C04", clause: "sync-hang-after-own-panic", inv: o.inv, ret: u64::MAX, detail: format!("the closure of sync #{} on o{} panicked while it was run for the caller, but the call never returned to its caller (it should have propagated the failure)", id, o.obj) });
            continue;
        }
        if o.inv == 0 || o.ret != 0 || o.panicked || o.cancelled || !in_scope(o.obj) {
            continue;
        }
        if i.objs[o.obj].expect_panicked {
            continue;
        }
        waiting_things += 1;
        match o.kind {
            Kind::Sync => {
                if o.start == 0 {
                    out.push(Cand { op: Some(id), obj: o.obj, prop: "C04", clause: "sync-hang", inv: o.inv, ret: u64::MAX, detail: format!("sync #{} on o{} (invoked t={}) never ran its closure and never returned", id, o.obj, o.inv) });
                } else if o.end != 0 {
                    out.push(Cand { op: Some(id), obj: o.obj, prop: "C04", clause: "sync-no-return", inv: o.inv, ret: u64::MAX, detail: format!("sync #{} on o{} ran its closure but the call never returned", id, o.obj) });
                }
            }
            Kind::TrySync => {
                if o.start == 0 || o.end != 0 {
                    out.push(Cand { op: Some(id), obj: o.obj, prop: "C09", clause: "blocked", inv: o.inv, ret: u64::MAX, detail: format!("try_sync #{} on o{} is blocked", id, o.obj) });
                }
            }
            Kind::PipeIn | Kind::Pipe => {
                out.push(Cand { op: Some(id), obj: o.obj, prop: if o.kind == Kind::PipeIn { "C11" } else { "C12" }, clause: "pipe-setup-hang", inv: o.inv, ret: u64::MAX, detail: format!("{:?} #{} on o{} never returned", o.kind, id, o.obj) });
            }
            Kind::Attempt => {
                out.push(Cand { op: Some(id), obj: o.obj, prop: "C15", clause: "attempt-blocked", inv: o.inv, ret: u64::MAX, detail: format!("attempt #{} on o{} is blocked", id, o.obj) });
            }
            _ => {
                out.push(Cand { op: Some(id), obj: o.obj, prop: "C03", clause: "schedule-call-blocked", inv: o.inv, ret: u64::MAX, detail: format!("{:?} call #{} on o{} never returned", o.kind, id, o.obj) });
            }
        }
    }
    // a future_sync operation is only ever polled by the task that owns its future: a wake-up obliges somebody to poll it again only
    // while that task is awaiting it (a future that was polled once and left is resumed when, and if, its owner comes back to it)
    let fs_pollable = |id: OpId, o: &OpRec| o.kind != Kind::FutSync || o.parent.is_some() || awaited.contains(&id);
    // the context that last polled a suspended operation can be resumed directly by the wake-up (no pool thread needed) only if it is
    // waiting for exactly that: a caller awaiting a future of the same object (its poll drains the queue), or a caller blocked in
    // sync() on that object. A task that polled once and is now parked somewhere else is not resumed by this wake-up.
    let poller_can_resume = |_id: OpId, o: &OpRec| {
        let t = if o.last_poll_task != usize::MAX { o.last_poll_task } else { o.runner_task };
        if pool_task(t) {
            return false;
        }
        // (... and it is still in the very wait during which it polled the operation: an operation it polled by hand earlier was
        // given another waker, and waking that one does not resume the caller's present wait)
        let seq = if o.last_poll_task != usize::MAX { o.last_poll_stage_seq } else { 0 };
        i.callers.iter().any(|c| {
            c.task == t
                && (seq == 0 || c.stage_seq == seq)
                && match c.stage {
                    Stage::Awaiting(f) | Stage::SyncWaiting(f) => i.ops[f].obj == o.obj,
                    Stage::InCall(s2) => i.ops[s2].kind == Kind::Sync && i.ops[s2].obj == o.obj,
                    Stage::Dropping(ob) => ob == o.obj,
                    _ => false,
                }
        })
    };
    // (2) accepted operations that have not finished
    for (id, o) in i.ops.iter().enumerate() {
        if !relevant(o) || !in_scope(o.obj) || i.objs[o.obj].expect_panicked {
            continue;
        }
        match o.kind {
            Kind::Desync | Kind::FutDesync | Kind::After | Kind::PipeItem | Kind::FutSync => {}
            _ => continue,
        }
        waiting_things += 1;
        if o.start == 0 {
            // not started
            if let Some(g) = o.waiting_gate {
                // `after`: suspended on its gate inside the library wrapper
                if i.gates[g].open && pool_capacity {
                    out.push(Cand { op: Some(id), obj: o.obj, prop: "C06", clause: "wake-lost", inv: o.inv, ret: o.ret, detail: format!("after #{} on o{} waits on gate g{} which was opened at t={} but was never resumed", id, o.obj, g, i.gates[g].opened_at) });
                }
                continue;
            }
            if o.kind == Kind::FutSync {
                if o.fut_dropped {
                    continue;
                }
                // the slot job needs a runner: a pool thread, or the awaiting task stealing the queue when it polls
                if (awaited.contains(&id) || o.in_poll > 0 || o.parent.is_some()) && (pool_capacity || (pool == 0 && started_with_pool_zero)) {
                    out.push(Cand { op: Some(id), obj: o.obj, prop: "C08", clause: "slot-never-reached", inv: o.inv, ret: o.ret, detail: format!("future_sync #{} on o{} is being awaited but its slot never started", id, o.obj) });
                }
                continue;
            }
            if pool >= 1 && pool_capacity && !i.pool_zero {
                out.push(Cand { op: Some(id), obj: o.obj, prop: "C03", clause: "stranded", inv: o.inv, ret: o.ret, detail: format!("{:?} #{} on o{} was accepted at t={} but never ran although the pool may have {} thread(s)", o.kind, id, o.obj, o.ret, pool) });
            } else if pool == 0 && started_with_pool_zero && awaited.contains(&id) {
                out.push(Cand { op: Some(id), obj: o.obj, prop: "C07", clause: "await-no-progress", inv: o.inv, ret: o.ret, detail: format!("{:?} #{} on o{} is being awaited with no pool thread but never ran", o.kind, id, o.obj) });
            } else if pool == 0 && started_with_pool_zero {
                // queued ahead of a future that is being awaited: the awaiting task runs the queue, this operation included
                if let Some(f) = awaited.iter().find(|f| i.ops[**f].obj == o.obj && o.ret != 0 && i.ops[**f].inv > o.ret && i.ops[**f].start == 0) {
                    let fk = i.ops[*f].kind;
                    let prop = if fk == Kind::FutSync { "C08" } else { "C07" };
                    out.push(Cand { op: Some(id), obj: o.obj, prop, clause: "await-no-progress", inv: o.inv, ret: o.ret, detail: format!("{:?} #{} on o{} is queued ahead of {:?} #{}, which is being awaited with no pool thread, but was never run by the awaiting task", o.kind, id, o.obj, fk, f) });
                }
            }
        } else if let Some(g) = o.waiting_gate {
            // resuming needs the context that ran it (a parked sync caller, a polling task) or a pool thread
            // (quiet aftermath of a panic: only a wake-up that certainly came after the lost thread was gone is one the library must act on)
            // (a thread that is blocked in sync() on this object is a runner too: it takes a rescheduled queue over)
            // (not for a future_sync operation: that one is polled by the task that owns its future, nobody else)
            // (so is a thread that is dropping the last owner of the object: Desync::drop is a sync() of its own)
            let sync_waiter = o.kind != Kind::FutSync && (i.ops.iter().any(|a| a.obj == o.obj && a.kind == Kind::Sync && a.inv != 0 && a.ret == 0 && a.start == 0 && !a.panicked) || (i.objs[o.obj].dropping_by.is_some() && !i.objs[o.obj].dead));
            if i.gates[g].open && fs_pollable(id, o) && (pool_capacity || sync_waiter || poller_can_resume(id, o)) {
                out.push(Cand { op: Some(id), obj: o.obj, prop: "C06", clause: "wake-lost", inv: o.inv, ret: o.ret, detail: format!("{:?} #{} on o{} is suspended on gate g{} which was opened at t={} but was never resumed", o.kind, id, o.obj, g, i.gates[g].opened_at) });
            }
        }
        else if o.waiting_self && o.start != 0 && fs_pollable(id, o) {
            // woke itself during the poll: it is never legitimately waiting
            if pool_capacity || poller_can_resume(id, o) {
                out.push(Cand { op: Some(id), obj: o.obj, prop: "C06", clause: "wake-lost", inv: o.inv, ret: o.ret, detail: format!("{:?} #{} on o{} woke its own waker during a poll and returned Pending, but was never polled again", o.kind, id, o.obj) });
            }
        }
        // else: started and busy inside its body: whatever it waits for is reported on its own
    }
    // (3a) inline tasks: woken means polled, so a finished operation means a resolved future
    for (f, done) in i.inline_futs.iter() {
        let o = &i.ops[*f];
        if *done || !in_scope(o.obj) || i.objs[o.obj].expect_panicked {
            continue;
        }
        waiting_things += 1;
        if o.ended() && !o.cancelled {
            out.push(Cand { op: Some(*f), obj: o.obj, prop: "C07", clause: "await-not-woken", inv: o.end, ret: u64::MAX, detail: format!("the inline task holding the future of #{} ({:?} on o{}) has not received the result although the operation finished at t={}", f, o.kind, o.obj, o.end) });
        }
    }
    for (s, done) in i.inline_consumers.iter() {
        let st = &i.streams[*s];
        let obj = st.pipe_obj.unwrap_or(0);
        if *done || !in_scope(obj) {
            continue;
        }
        waiting_things += 1;
        if st.processed.len() > st.outputs.len() {
            out.push(Cand { op: None, obj, prop: "C12", clause: "consumer-not-woken", inv: 0, ret: 0, detail: format!("the inline consumer of pipe s{} has {} outputs although {} items have been processed", s, st.outputs.len(), st.processed.len()) });
        } else if pool_capacity && st.closed && st.processed.len() == st.pushed.len() && st.items.is_empty() {
            out.push(Cand { op: None, obj, prop: "C12", clause: "end-not-delivered", inv: 0, ret: 0, detail: format!("the inline consumer of pipe s{} has not seen the end although the input ended and all {} items were delivered", s, st.outputs.len()) });
        }
    }
    // (3) callers waiting for a future whose operation has finished
    for c in i.callers.iter() {
        match c.stage {
            Stage::Awaiting(f) | Stage::SyncWaiting(f) => {
                let o = &i.ops[f];
                if !in_scope(o.obj) || i.objs[o.obj].expect_panicked {
                    continue;
                }
                waiting_things += 1;
                if o.kind == Kind::Suspend {
                    // suspend future: resolves once everything before it has run; the awaiting task cannot run the queue itself,
                    // so this takes a pool thread (or another caller's sync) like any queued job
                    if !pool_capacity {
                        continue;
                    }
                    out.push(Cand { op: Some(f), obj: o.obj, prop: "C13", clause: "suspend-never-resolved", inv: o.inv, ret: o.ret, detail: format!("suspend #{} on o{} never resolved", f, o.obj) });
                } else if o.ended() && !o.cancelled {
                    let prop = if o.kind == Kind::FutSync { "C08" } else { "C07" };
                    out.push(Cand { op: Some(f), obj: o.obj, prop, clause: "await-not-woken", inv: o.end, ret: u64::MAX, detail: format!("the task waiting for the future of #{} ({:?} on o{}) was not resumed although the operation finished at t={}", f, o.kind, o.obj, o.end) });
                }
            }
            Stage::Dropping(obj) => {
                if !in_scope(obj) {
                    continue;
                }
                waiting_things += 1;
                let pending = i.ops.iter().any(|a| a.obj == obj && relevant(a) && matches!(a.kind, Kind::Desync | Kind::FutDesync | Kind::After | Kind::PipeItem | Kind::FutSync | Kind::Sync));
                if !pending {
                    out.push(Cand { op: None, obj, prop: "C05", clause: "drop-hang", inv: i.clock, ret: u64::MAX, detail: format!("dropping the last owner of o{} never returned although every operation scheduled on it has finished", obj) });
                } else if pool == 0 {
                    // with no pool thread the dropping thread must run the queue itself
                    out.push(Cand { op: None, obj, prop: "C05", clause: "drop-hang", inv: u64::MAX - 1, ret: u64::MAX, detail: format!("dropping the last owner of o{} never returned", obj) });
                }
            }
            Stage::Consuming(s) => {
                let st = &i.streams[s];
                let obj = st.pipe_obj.unwrap_or(0);
                if !in_scope(obj) {
                    continue;
                }
                waiting_things += 1;
                if st.processed.len() > st.outputs.len() {
                    out.push(Cand { op: None, obj, prop: "C12", clause: "consumer-not-woken", inv: 0, ret: 0, detail: format!("consumer of pipe s{} is blocked after {} outputs although {} items have been processed", s, st.outputs.len(), st.processed.len()) });
                } else if !pool_capacity {
                    // delivering the end / the next item takes a poll job on the pool
                } else if st.closed && st.processed.len() == st.pushed.len() && st.items.is_empty() {
                    out.push(Cand { op: None, obj, prop: "C12", clause: "end-not-delivered", inv: 0, ret: 0, detail: format!("consumer of pipe s{} is blocked although the input ended and all {} items were delivered", s, st.outputs.len()) });
                } else if !st.items.is_empty() || (st.closed && st.processed.len() < st.pushed.len()) {
                    out.push(Cand { op: None, obj, prop: "C12", clause: "producer-stalled", inv: 0, ret: 0, detail: format!("pipe s{}: {} input items are waiting, {} processed, {} read by the consumer, and nothing can run", s, st.items.len(), st.processed.len(), st.outputs.len()) });
                }
            }
            _ => {}
        }
    }
    (out, waiting_things)
}

/// Attributes the unmet obligations: per object, only the obligations nothing else is ahead of are blamed.
fn attribute(w: &Arc<World>, only_objs: Option<&[u8]>, ctx: &str, snap: &[rt::TaskInfo]) -> usize {
    let live_pool = snap.iter().filter(|t| t.name == POOL_THREAD_NAME && t.state != rt::TaskState::Finished).count();
    let dormant = snap.iter().filter(|t| t.name == POOL_THREAD_NAME && matches!(t.state, rt::TaskState::Blocked(rt::BlockKind::Recv, _))).count();
    // 'true' unless the task is a live non-pool context (a parked sync caller, a polling task) that the wake-up can resume directly
    let pool_task = |t: usize| snap.get(t).map(|ti| ti.name == POOL_THREAD_NAME || !matches!(ti.state, rt::TaskState::Blocked(rt::BlockKind::Park, _))).unwrap_or(true);
    // the pool-0 promises (the awaiting task runs the queue itself) are about a pool that is 0 throughout, not one that was
    // lowered to 0 while asynchronous work was pending
    let started_zero = w.case.cfg.pool == 0;
    let (cands, waiting) = w.with(|i| candidates(i, only_objs, dormant, live_pool, &pool_task, started_zero));
    // every unfinished operation per object, candidate or not: an obligation is only blamed if nothing unfinished is ahead of it
    let unfinished: Vec<(usize, Option<OpId>, u64, bool, u64)> = w.with(|i| {
        i.ops
            .iter()
            .enumerate()
            .filter(|(_, a)| a.inv != 0 && !a.ended() && !a.cancelled && !a.busy && !a.panicked && !(a.kind == Kind::FutSync && a.fut_dropped && a.start == 0) && matches!(a.kind, Kind::Desync | Kind::Sync | Kind::TrySync | Kind::FutDesync | Kind::FutSync | Kind::After | Kind::PipeItem))
            .map(|(id, a)| (a.obj, Some(id), if a.ret == 0 { u64::MAX } else { a.ret }, a.start != 0, a.inv))
            .collect()
    });
    // a suspension that is still in force (requested and neither resumed nor cancelled, whether or not its owner has looked at the
    // future yet) legitimately holds everything that was invoked after it: it is "ahead" of those operations
    let mut unfinished = unfinished;
    w.with(|i| {
        for (o, ob) in i.objs.iter().enumerate() {
            for su in ob.suspensions.iter() {
                if su.resumed_at == 0 && !su.fut_dropped {
                    let sop = &i.ops[su.op];
                    if sop.ret != 0 {
                        unfinished.push((o, Some(su.op), sop.ret, false, sop.inv));
                    }
                }
            }
        }
    });
    if cands.is_empty() {
        return waiting;
    }
    let n_objs = w.case.cfg.objects as usize;
    for obj in 0..n_objs {
        let mine: Vec<&Cand> = cands.iter().filter(|c| c.obj == obj).collect();
        if mine.is_empty() {
            continue;
        }
        // heads: no other unmet obligation on this object returned before this one was invoked
        // A is ahead of k if its call returned before k was invoked, or if A has already been dequeued (started) and k has not
        let started = |op: Option<OpId>| op.map(|id| w.with(|i| i.ops[id].start != 0)).unwrap_or(false);
        let heads: Vec<&&Cand> = mine.iter().filter(|k| !unfinished.iter().any(|(o, aid, aret, astarted, _)| *o == obj && *aid != k.op && (*aret < k.inv || (*astarted && !started(k.op))))).collect();
        if heads.is_empty() {
            // everything stuck on this object is behind an operation that is itself waiting for something else
            continue;
        }
        // calls that overlapped in real time may have been queued in either order: a head is only blamed if every other
        // unfinished operation of the object is certainly behind it (its call returned before the other was invoked), or is
        // itself a stuck operation of the same kind of obligation (then whichever is first violates that same property)
        let certain = |k: &Cand| {
            unfinished.iter().all(|(o, aid, _, _, ainv)| {
                *o != obj || *aid == k.op || (k.ret != u64::MAX && k.ret < *ainv) || mine.iter().any(|m| m.op == *aid && m.prop == k.prop) || started(k.op)
            })
        };
        let uncertain: Vec<&&&Cand> = heads.iter().filter(|h| !certain(h)).collect();
        if !uncertain.is_empty() {
            let all: Vec<String> = heads.iter().map(|h| format!("{}:{}", h.prop, h.detail)).collect();
            w.note("AMBIG", "queue-order-unknown", Some(obj), None, format!("o{} is stuck; operations whose calls overlapped are unfinished and their queue order is unknown: {}", obj, all.join(" | ")));
            continue;
        }
        let suspended_obj = w.with(|i| !i.objs[obj].suspensions.is_empty());
        let mut props: Vec<&'static str> = heads.iter().map(|h| h.prop).collect();
        props.sort();
        props.dedup();
        let qdebug = format!("[{}]", ctx);
        if props.len() == 1 {
            let h = heads[0];
            let prop = if suspended_obj && (h.prop == "C03" || h.prop == "C04") { "C13" } else { h.prop };
            let clause = if prop == "C13" && h.prop != "C13" { "held-work-never-ran" } else { h.clause };
            w.note(prop, clause, Some(obj), h.op, format!("{} {}", h.detail, qdebug));
            // a healthy object that stalls (with pool capacity left) in a case where another object's operation panicked:
            // the panic was not contained
            if w.with(|i| i.panic_case && i.stats.panics_injected > 0 && !i.objs[obj].expect_panicked && i.objs[obj].panic_injected.is_none()) && matches!(h.prop, "C03" | "C06" | "C07" | "C04") {
                w.note("C15", "healthy-object-stalled-after-panic", Some(obj), h.op, format!("{} {}", h.detail, qdebug));
            }
            // the last thing that ran on the object was a try_sync closure, and the stuck operation arrived while it was running: it was
            // never picked up when try_sync let go of the queue (try_sync "never disturbs the queue")
            if matches!(h.prop, "C03" | "C04") {
                let after_trysync = w.with(|i| {
                    let last = i.ops.iter().filter(|a| a.obj == obj && a.end != 0).max_by_key(|a| a.end);
                    matches!(last, Some(a) if a.kind == Kind::TrySync && !a.busy && a.start < h.inv && h.inv < a.end)
                });
                if after_trysync {
                    w.note("C09", "operation-arriving-during-try_sync-never-ran", Some(obj), h.op, format!("{} {}", h.detail, qdebug));
                }
            }
            // the last owner of the object is being dropped (by a caller, or by a job of another object) and that drop is waiting for
            // the operation the library has lost: it never returns and the value is never destroyed
            if matches!(h.prop, "C03" | "C06") && w.with(|i| i.objs[obj].dropping_by.is_some() && !i.objs[obj].dead) {
                w.note("C05", "drop-never-returned-behind-lost-operation", Some(obj), h.op, format!("the last owner of o{} is being dropped, but: {} {}", obj, h.detail, qdebug));
            }
            // the same stuck operation also breaks the promises made about it under other headings
            if let Some(opid) = h.op {
                let (kind, fut_dropped, accepted) = w.with(|i| (i.ops[opid].kind, i.ops[opid].fut_dropped, i.ops[opid].accepted));
                if h.prop == "C06" && accepted && matches!(kind, Kind::FutDesync | Kind::After | Kind::PipeItem) {
                    w.note("C03", "accepted-operation-never-completed", Some(obj), h.op, format!("{} {}", h.detail, qdebug));
                }
                if (h.prop == "C06" || h.prop == "C03") && accepted && matches!(kind, Kind::FutDesync | Kind::After) && fut_dropped && w.with(|i| i.cur_max >= 1) {
                    w.note("C07", "dropped-future-operation-never-completed", Some(obj), h.op, format!("{} {}", h.detail, qdebug));
                }
                if h.prop == "C06" {
                    // the context that ran the suspended operation is a task awaiting a future_sync of this object: that future is
                    // what has to pick the queue up again when it is woken (and it can never resolve otherwise)
                    let poller = w.with(|i| i.ops[opid].last_poll_task);
                    let awaiting_fs = w.with(|i| i.callers.iter().any(|c| c.task == poller && matches!(c.stage, Stage::Awaiting(f) if i.ops[f].kind == Kind::FutSync && i.ops[f].obj == obj)));
                    if awaiting_fs {
                        w.note("C08", "awaiting-future_sync-did-not-resume-the-queue", Some(obj), h.op, format!("{} {}", h.detail, qdebug));
                    }
                }
                if h.prop == "C06" && kind == Kind::FutSync {
                    w.note("C08", "future_sync-operation-never-resumed", Some(obj), h.op, format!("{} {}", h.detail, qdebug));
                }
            }
        } else {
            let all: Vec<String> = heads.iter().map(|h| format!("{}:{}", h.prop, h.detail)).collect();
            w.note("AMBIG", "mixed-heads", Some(obj), None, format!("o{} is stuck and the first stuck operation cannot be determined: {} {}", obj, all.join(" | "), qdebug));
        }
    }
    waiting
}

pub fn phase_end(w: &Arc<World>, pi: usize, _handles: &[Option<ObjH>]) {
    let phase = &w.case.phases[pi];
    if !phase.must_finish_objs.is_empty() {
        // C10: these objects are independent of every closed gate: all their operations must be done
        let unmet: Vec<(OpId, Kind, usize)> = w.with(|i| {
            i.ops
                .iter()
                .enumerate()
                .filter(|(_, a)| phase.must_finish_objs.contains(&(a.obj as u8)) && a.inv != 0 && !a.cancelled && !a.busy && ((a.accepted && !a.ended() && a.kind != Kind::Suspend && a.kind != Kind::Pipe && a.kind != Kind::PipeIn) || (a.ret == 0)))
                .map(|(id, a)| (id, a.kind, a.obj))
                .collect()
        });
        if let Some((id, kind, obj)) = unmet.first() {
            let blocked = w.with(|i| i.ops.iter().filter(|a| a.start != 0 && !a.ended() && !phase.must_finish_objs.contains(&(a.obj as u8))).count());
            w.note(
                "C10",
                "independent-object-starved",
                Some(*obj),
                Some(*id),
                format!("{:?} #{} on o{} did not complete while {} operation(s) on other objects are blocked on closed gates (pool maximum {}, live pool threads {})", kind, id, obj, blocked, w.with(|i| i.cur_max), rt::live_named(POOL_THREAD_NAME)),
            );
        }
    }
    // the same obligations as at the very end, judged while gates may still be closed and streams still open: a stall that the
    // final stage would paper over (it opens every gate and ends every stream) is caught here. Every candidate is conditional on the
    // state of what it waits for, so a legitimate wait is not an obligation.
    // (Only obligations that hold whatever else is still legitimately waiting are judged here: most of the others are not
    // conditional on everything a mid-run wait can depend on, which is why the final stage exists.)
    let stalled: Vec<(usize, Option<usize>, usize, usize)> = w.with(|i| {
        i.callers
            .iter()
            .filter_map(|c| match c.stage {
                Stage::Consuming(s) if i.streams[s].processed.len() > i.streams[s].outputs.len() => Some((s, i.streams[s].pipe_obj, i.streams[s].outputs.len(), i.streams[s].processed.len())),
                _ => None,
            })
            .collect()
    });
    // C16 while other objects are still (legitimately) waiting: a pipe whose output stream has been dropped shuts down through a last
    // poll job on its own object. When nothing of that object is unfinished and a pool thread is free or may be spawned, it has done
    // so by now, whatever the rest of the program is waiting for (closed gates, the pipes' shared disposal queue being held up
    // by another object's destructor, ...)
    let capacity = {
        let snap = rt::snapshot();
        let live_pool = snap.iter().filter(|t| t.name == POOL_THREAD_NAME && t.state != rt::TaskState::Finished).count();
        let dormant = snap.iter().filter(|t| t.name == POOL_THREAD_NAME && matches!(t.state, rt::TaskState::Blocked(rt::BlockKind::Recv, _))).count();
        let max = w.with(|i| i.cur_max);
        max >= 1 && (dormant >= 1 || live_pool < max) && !w.with(|i| i.pool_zero)
    };
    if capacity {
        let open_pipes: Vec<(usize, usize, u32, u32)> = w.with(|i| {
            i.streams
                .iter()
                .enumerate()
                .filter(|(_, s)| s.used && s.is_pipe && s.out_dropped && !s.closed && (s.drops != 1 || s.fn_drops != 1))
                .filter_map(|(si, s)| s.pipe_obj.map(|o| (si, o, s.drops, s.fn_drops)))
                .filter(|(_, o, _, _)| !i.objs[*o].expect_panicked && !i.ops.iter().any(|a| a.obj == *o && a.inv != 0 && !a.ended() && !a.cancelled && !a.busy && !a.panicked && !matches!(a.kind, Kind::Pipe | Kind::PipeIn | Kind::Suspend | Kind::Attempt)))
                .collect()
        });
        for (si, o, drops, fn_drops) in open_pipes {
            w.note("C16", "pipe-not-shut-down", Some(o), None, format!("the output stream of pipe s{} was dropped, nothing else is unfinished on o{} and a pool thread is available, but the input stream was dropped {} times and the processing closure {} times [quiescence at the end of phase {}, gates that nobody opened still closed]", si, o, drops, fn_drops, pi));
        }
    }
    for (s, obj, got, done) in stalled {
        w.note("C12", "consumer-not-woken", obj, None, format!("consumer of pipe s{} is blocked after {} outputs although {} items have been processed and nothing can run any more [quiescence at the end of phase {}, gates that nobody opened still closed]", s, got, done, pi));
    }
    finish_if_violated(w);
}

fn finish_if_violated(w: &Arc<World>) {
    let n = w.with(|i| i.violations.len());
    if n > 0 {
        rt::abort("obligation unmet at quiescence".to_string());
    }
}

pub fn final_quiescence(w: &Arc<World>, handles: &[Option<ObjH>]) {
    // C16: a pipe whose output stream was dropped must have shut down without any further input event
    let pipes: Vec<(usize, u32, u32, bool)> = w.with(|i| i.streams.iter().enumerate().filter(|(_, s)| s.used && s.is_pipe && s.out_dropped && !s.closed).map(|(si, s)| (si, s.drops, s.fn_drops, s.closed)).collect());
    // (shutting down runs a last poll job on the pool: only an obligation while a pool thread is free or may be spawned)
    let capacity = {
        let snap = rt::snapshot();
        let live_pool = snap.iter().filter(|t| t.name == POOL_THREAD_NAME && t.state != rt::TaskState::Finished).count();
        let dormant = snap.iter().filter(|t| t.name == POOL_THREAD_NAME && matches!(t.state, rt::TaskState::Blocked(rt::BlockKind::Recv, _))).count();
        let max = w.with(|i| i.cur_max);
        max >= 1 && (dormant >= 1 || live_pool < max) && !w.with(|i| i.pool_zero)
    };
    for (si, drops, fn_drops, _) in pipes {
        if (drops != 1 || fn_drops != 1) && capacity {
            w.note("C16", "pipe-not-shut-down", None, None, format!("the output stream of pipe s{} was dropped and the input stayed silent, but the input stream was dropped {} times and the processing closure {} times", si, drops, fn_drops));
        }
    }
    // a waker called from inside poll_next must return (a pipe that takes a lock in its waker which it also holds while it polls
    // its stream deadlocks right there)
    let stuck_wakes: Vec<(usize, bool, Option<usize>)> = w.with(|i| i.streams.iter().enumerate().filter(|(_, s)| s.in_self_wake).map(|(si, s)| (si, s.is_pipe, s.pipe_obj)).collect());
    for (si, is_pipe, obj) in stuck_wakes {
        w.note(if is_pipe { "C12" } else { "C11" }, "wake-from-poll-never-returned", obj, None, format!("input stream s{} woke the pipe from inside poll_next and that call has not returned although nothing can run any more", si));
    }
    for (o, h) in handles.iter().enumerate() {
        if let Some(h) = h {
            w.hist(|| format!("at final quiescence o{}: {}", o, h.debug()));
        }
    }
    w.hist(|| format!("at final quiescence: scheduler {:?}, live pool threads {}", desync::scheduler::scheduler(), rt::live_named(POOL_THREAD_NAME)));
    let waiting = attribute(w, None, "final quiescence: all gates open, all callers should be done", &rt::snapshot());
    // a call that was already in flight on an object when one of its operations panicked may wait forever: no property covers it
    let (unfinished_callers, nviol) = w.with(|i| {
        let on_panicked = |c: &CallerSt| match c.stage {
            Stage::InCall(op) | Stage::Awaiting(op) | Stage::SyncWaiting(op) => i.objs[i.ops[op].obj].expect_panicked,
            Stage::Dropping(o) => i.objs[o].expect_panicked,
            _ => false,
        };
        (i.callers.iter().filter(|c| c.stage != Stage::Done && !on_panicked(c)).count(), i.violations.len())
    });
    if nviol == 0 && (unfinished_callers > 0 || waiting > 0) {
        // something is stuck and no rule explains it: a defect of the harness, never of the library
        let stages: Vec<String> = w.with(|i| i.callers.iter().filter(|c| c.stage != Stage::Done).map(|c| format!("caller{}.{}@{}:{:?}", c.phase, c.idx, c.pos, c.stage)).collect());
        // with pool 0 queued asynchronous work legitimately waits for a caller: only stuck callers count
        if unfinished_callers > 0 || w.with(|i| i.cur_max >= 1 && !i.pool_zero) {
            let snap = rt::snapshot();
            let live_pool = snap.iter().filter(|t| t.name == POOL_THREAD_NAME && t.state != rt::TaskState::Finished).count();
            let dormant = snap.iter().filter(|t| t.name == POOL_THREAD_NAME && matches!(t.state, rt::TaskState::Blocked(rt::BlockKind::Recv, _))).count();
            let max = w.with(|i| i.cur_max);
            if (max >= 1 && dormant == 0 && live_pool >= max) || w.with(|i| i.pool_zero) {
                // (a pool whose maximum is, or has been lowered to, zero cannot finish asynchronous work that waits for other asynchronous work)
                // every pool thread is stuck inside a job that waits for work that itself needs a pool thread:
                // a resource deadlock of the generated program, which no property promises to avoid
                w.note("SATURATED", "pool-exhausted-by-blocked-jobs", None, None, format!("callers stuck: {}", stages.join(", ")));
            } else {
                w.note("HARNESS", "unexplained-hang", None, None, format!("callers stuck: {}", stages.join(", ")));
            }
        }
    }
    finish_if_violated(w);
    // nothing is queued or marked as running: try_sync must succeed on every live, idle object
    let pool = w.with(|i| i.cur_max);
    for (o, h) in handles.iter().enumerate() {
        if let Some(h) = h {
            let skip = w.with(|i| i.objs[o].expect_panicked || i.objs[o].dead || i.ops.iter().any(|a| a.obj == o && a.inv != 0 && !a.ended() && !a.cancelled && !a.busy && !a.panicked && a.kind != Kind::Suspend && a.kind != Kind::Pipe && a.kind != Kind::PipeIn && a.kind != Kind::Attempt));
            if skip {
                continue;
            }
            // with no pool thread, leftovers (e.g. the slot jobs of cancelled future_sync calls) stay queued until somebody syncs
            if pool == 0 || w.with(|i| i.pool_zero) {
                continue;
            }
            let r = h.try_sync(|_p| ());
            if r.is_err() {
                let d = format!("every operation on o{} has finished and nothing can run, but try_sync answers Busy ({})", o, h.debug());
                w.note("C09", "idle-but-busy", Some(o), None, d.clone());
                w.note("C03", "left-marked-running", Some(o), None, d);
            }
        }
    }
    finish_if_violated(w);
}

pub fn after_drops(w: &Arc<World>) {
    let level = w.case.cfg.level;
    // on a bare queue with no pool thread nothing ever drains queued work: not an obligation
    let undrained_ok = w.with(|i| level == Level::Queue && i.pool_zero);
    let mut notes: Vec<(&'static str, &'static str, Option<usize>, Option<OpId>, String)> = vec![];
    w.with(|i| {
        for (o, ob) in i.objs.iter().enumerate() {
            if ob.expect_panicked {
                continue;
            }
            if level == Level::Desync && (!ob.dead || ob.drops != 1) && !i.panic_case {
                // who could still own it?
                let pipe_holds = i.streams.iter().any(|s| s.is_pipe && s.pipe_obj == Some(o) && s.out_dropped && s.drops == 0);
                let prop = if pipe_holds { "C16" } else { "C05" };
                notes.push((prop, "not-destroyed", Some(o), None, format!("every handle on o{} has been released but its value was destroyed {} times", o, ob.drops)));
            }
        }
        for (id, a) in i.ops.iter().enumerate() {
            if i.objs[a.obj].expect_panicked || a.panicked {
                continue;
            }
            match a.kind {
                Kind::Desync | Kind::FutDesync | Kind::After => {
                    if a.accepted && a.runs != 1 && !undrained_ok {
                        let prop = if i.objs[a.obj].suspensions.is_empty() { "C03" } else { "C13" };
                        notes.push((prop, "lost", Some(a.obj), Some(id), format!("{:?} #{} on o{} was accepted but ran {} times by the time its object was destroyed", a.kind, id, a.obj, a.runs)));
                    }
                }
                _ => {}
            }
            if a.accepted && matches!(a.kind, Kind::Desync | Kind::Sync | Kind::TrySync | Kind::FutDesync | Kind::FutSync | Kind::After) && a.token_drops != 1 && a.inv != 0 && !undrained_ok {
                notes.push(("C14", "closure-storage-leaked", Some(a.obj), Some(id), format!("closure storage of {:?} #{} was released {} times", a.kind, id, a.token_drops)));
            }
        }
        for (si, s) in i.streams.iter().enumerate() {
            if !s.used {
                continue;
            }
            let prop = if s.is_pipe {
                if s.out_dropped && !s.out_ended {
                    "C16"
                } else {
                    "C12"
                }
            } else {
                "C11"
            };
            // released on the pool (the pipe's disposal queue): only an obligation while a pool thread may exist
            if (s.drops != 1 || s.fn_drops != 1) && !i.pool_zero {
                notes.push((prop, "stream-or-closure-not-released", s.pipe_obj, None, format!("stream s{}: input stream dropped {} times, processing closure dropped {} times (expected once each)", si, s.drops, s.fn_drops)));
            }
            // every item once, in order
            let n = s.processed.len();
            if s.processed[..] != s.pushed[..n.min(s.pushed.len())] || n > s.pushed.len() {
                notes.push((if s.is_pipe { "C12" } else { "C11" }, "items-out-of-order-or-duplicated", s.pipe_obj, None, format!("stream s{}: pushed {:?}, processed {:?}", si, s.pushed, s.processed)));
            } else if !s.is_pipe {
                let obj = s.pipe_obj.unwrap_or(0);
                let alive_to_end = i.objs[obj].died_at == 0;
                if alive_to_end && n != s.pushed.len() {
                    notes.push(("C11", "items-lost", s.pipe_obj, None, format!("stream s{}: {} items pushed but only {} processed although the object outlived the stream", si, s.pushed.len(), n)));
                }
            } else if s.is_pipe && !s.out_dropped && s.out_ended && s.outputs.len() != s.pushed.len() {
                notes.push(("C12", "outputs-lost", s.pipe_obj, None, format!("pipe s{}: {} inputs, {} outputs before the end", si, s.pushed.len(), s.outputs.len())));
            }
        }
    });
    for (p, c, o, op, d) in notes {
        w.note(p, c, o, op, d);
    }
    finish_if_violated(w);
}

/// The root itself is blocked inside a library call
pub fn deadlock(w: &Arc<World>, res: &rt::RunResult) {
    let stage = w.with(|i| i.root_stage.clone());
    let blocked: Vec<String> = res.tasks.iter().filter(|t| t.state != rt::TaskState::Finished).map(|t| format!("{}:{:?}", t.name, t.state)).collect();
    if stage.starts_with("final: drop o") || stage.starts_with("root releases") {
        let obj: Option<usize> = w.with(|i| i.objs.iter().position(|o| o.dropping_by == Some(0)));
        // is some accepted operation on it still unfinished? then the drop is legitimately waiting only if that can still finish
        attribute(w, None, &format!("deadlock while the root drops its handle ({})", stage), &res.tasks);
        let nv = w.with(|i| i.violations.len());
        if nv == 0 {
            let pending = obj.map(|ob| w.with(|i| i.ops.iter().any(|a| a.obj == ob && a.inv != 0 && !a.ended() && !a.cancelled && !a.busy && !a.panicked && matches!(a.kind, Kind::Desync | Kind::Sync | Kind::FutDesync | Kind::FutSync | Kind::After | Kind::PipeItem)))).unwrap_or(false);
            let live_pool = res.tasks.iter().filter(|t| t.name == POOL_THREAD_NAME && t.state != rt::TaskState::Finished).count();
            let dormant = res.tasks.iter().filter(|t| t.name == POOL_THREAD_NAME && matches!(t.state, rt::TaskState::Blocked(rt::BlockKind::Recv, _))).count();
            let max = w.with(|i| i.cur_max);
            if !pending {
                w.note("C05", "drop-hang", obj, None, format!("dropping the last owner of o{:?} never returned although every operation scheduled on it has finished; tasks: {}", obj, blocked.join(", ")));
            } else if (max >= 1 && dormant == 0 && live_pool >= max) || max == 0 {
                // (with a maximum of zero, asynchronous work that depends on other queued asynchronous work cannot finish)
                w.note("SATURATED", "pool-exhausted-by-blocked-jobs", obj, None, format!("root blocked dropping o{:?}; tasks: {}", obj, blocked.join(", ")));
            } else {
                w.note("HARNESS", "unexplained-deadlock", obj, None, format!("root blocked dropping o{:?} behind unfinished work; tasks: {}", obj, blocked.join(", ")));
            }
        }
    } else if stage.contains("despawn") {
        // a pool thread stuck on a mutex while the root joins it: the despawn holds a lock the job needs (C17).
        // pool threads stuck in a condvar / park are inside a sync of the generated program that was already stuck.
        let pool_blocked: Vec<&rt::TaskInfo> = res.tasks.iter().filter(|t| t.name == POOL_THREAD_NAME && t.state != rt::TaskState::Finished).collect();
        let program_stuck = pool_blocked.iter().any(|t| matches!(t.state, rt::TaskState::Blocked(rt::BlockKind::Condvar, _) | rt::TaskState::Blocked(rt::BlockKind::Park, _)));
        let on_mutex = pool_blocked.iter().any(|t| matches!(t.state, rt::TaskState::Blocked(rt::BlockKind::Mutex, _)));
        if on_mutex || !program_stuck {
            w.note("C17", "despawn-hang", None, None, format!("despawn_threads_if_overloaded never returned; tasks: {}", blocked.join(", ")));
        } else {
            w.note("SATURATED", "despawn-joined-a-thread-stuck-in-the-program", None, None, format!("tasks: {}", blocked.join(", ")));
        }
    } else if stage.contains("execution-local") {
        w.note("C05", "drop-hang", None, None, format!("dropping the reference chute never returned; tasks: {}", blocked.join(", ")));
    } else {
        attribute(w, None, &format!("deadlock at root stage '{}'", stage), &res.tasks);
        let nv = w.with(|i| i.violations.len());
        if nv == 0 {
            w.note("HARNESS", "unexplained-deadlock", None, None, format!("root stage '{}'; tasks: {}", stage, blocked.join(", ")));
        }
    }
}

/// C15: after a panic the pool must still be able to run `max` jobs at the same time
pub fn capacity_probe(w: &Arc<World>, handles: &[Option<ObjH>]) {
    let max = w.with(|i| i.cur_max);
    let healthy: Vec<usize> = w.with(|i| (0..i.objs.len()).filter(|o| !i.objs[*o].expect_panicked && !i.objs[*o].dead && handles[*o].is_some()).collect());
    let k = healthy.len().min(max);
    if k == 0 {
        return;
    }
    let started = Arc::new(Sh::new(vec![false; k]));
    let gate = Arc::new(Sh::new((false, Vec::<vsched::thread::Thread>::new())));
    for (idx, o) in healthy.iter().take(k).enumerate() {
        let started = started.clone();
        let gate = gate.clone();
        let h = handles[*o].as_ref().unwrap();
        h.desync_raw(Box::new(move || {
            started.with(|s| s[idx] = true);
            loop {
                let open = gate.with(|g| {
                    if !g.0 {
                        g.1.push(vsched::thread::current());
                    }
                    g.0
                });
                if open {
                    break;
                }
                vsched::thread::park();
            }
        }));
    }
    w.with(|i| i.root_stage = "capacity probe".to_string());
    rt::wait_quiescent();
    let flags = started.with(|s| s.clone());
    let waiters = gate.with(|g| {
        g.0 = true;
        std::mem::take(&mut g.1)
    });
    for t in waiters {
        t.unpark();
    }
    // a probe job that has not started is excused if its queue is legitimately held: an earlier operation of that object is
    // suspended on a gate that is still closed (that takes no pool thread)
    let missing: Vec<usize> = healthy.iter().take(k).enumerate().filter(|(idx, o)| !flags[*idx] && !w.with(|i| i.ops.iter().any(|a| a.obj == **o && a.inv != 0 && !a.ended() && !a.cancelled && a.waiting_gate.map(|g| !i.gates[g].open).unwrap_or(false)))).map(|(_, o)| *o).collect();
    if !missing.is_empty() {
        let n = flags.iter().filter(|f| **f).count();
        w.note("C15", "pool-capacity-reduced", None, None, format!("after the panic, {} blocking jobs on {} healthy objects were scheduled with a pool maximum of {} but only {} started and nothing holds the queue of o{:?} (live pool threads: {})", k, k, max, n, missing, rt::live_named(POOL_THREAD_NAME)));
    }
    rt::wait_quiescent();
    finish_if_violated(w);
}
