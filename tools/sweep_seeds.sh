#!/bin/bash
# usage: tools/sweep_seeds.sh <tier> <seed>...  -- every property's check once per seed (run from a /verif snapshot, e.g. via `vp run`)
tier="$1"; shift
./check build | tail -3
for seed in "$@"; do
  for id in C01 C02 C03 C04 C05 C06 C07 C08 C09 C10 C11 C12 C13 C14 C15 C16 C17; do
    VERIF_SEED=$seed ./check $id $tier > sweep_$id.$seed.log 2>&1; rc=$?
    echo "seed=$seed $id exit=$rc $(grep -E "^(C[0-9]+ (quick|thorough))" sweep_$id.$seed.log | sed -E 's/distinct non-trivial, //; s/, [0-9.]+s \(.*//' | cut -c1-220)"
    grep -E "^(VIOLATION|KNOWN|WARNING|INCONCL)" sweep_$id.$seed.log | cut -c1-200
  done
done
