#!/bin/bash
# usage: ./run_all.sh [quick|thorough] [ids...]   -- developer convenience: runs checks and prints one summary line each
tier="${1:-quick}"; shift
ids="$@"; [ -z "$ids" ] && ids="C01 C02 C03 C04 C05 C06 C07 C08 C09 C10 C11 C12 C13 C14 C15 C16 C17"
for id in $ids; do
  ./target/release/dv check $id --tier $tier 2>&1 | grep -E "^(C[0-9]+ (quick|thorough)|VIOLATION|KNOWN|WARNING|  C[0-9]+ |  HARNESS|  SATUR|  AMBIG)" | head -6
done
