#!/bin/bash
# usage: tools/sweep.sh <tier> <seed> [ids...]  -- runs ./check for every property from the current directory (a /verif snapshot)
tier="${1:-thorough}"; seed="${2:-0}"; shift; shift
ids="$@"; [ -z "$ids" ] && ids="C01 C02 C03 C04 C05 C06 C07 C08 C09 C10 C11 C12 C13 C14 C15 C16 C17"
./check build | tail -3
for id in $ids; do
  echo "=== $id $tier seed=$seed $(date +%H:%M:%S)"
  VERIF_SEED=$seed ./check $id $tier > sweep_$id.log 2>&1; rc=$?
  grep -E "^(C[0-9]+ (quick|thorough)|VIOLATION|KNOWN|WARNING|sched_fuzz|asan_real)" sweep_$id.log | cut -c1-300
  echo "exit=$rc"
done
