#!/usr/bin/env python3
"""Writes /verif/MANIFEST.json from the table below (run from /verif)."""
import json, subprocess

HOOK_COMMITS = ["9496c38", "6c99778"]

COMMON_NOTE = ("Trusted base: the vsched runtime (each primitive implements a subset of the behaviours std documents for Mutex/Condvar/"
  "park/mpsc/spawn/join, so an explored execution is one real threads can produce), the harness interpreter and its stamping; the generator "
  "preconditions of DESIGN.md 5.2. Interleavings are explored at the granularity of those primitives; atomics inside the futures crate are "
  "atomic; no weak-memory effects. Search never establishes absence; bounds: <=4 objects, <=4 callers per phase, pool 0..3, <=~30 operations, "
  "<=300 explicit schedule choices then a deterministic tail. Step-bound and pool-exhausted executions count as inconclusive. "
  "Simulated threads are coroutines: per-thread state in the tested code (none in the unmodified library) is only handled by the OS-thread mode that runs when an in-run violation does not reproduce in isolation (DESIGN.md 3.4); a violation that neither mode reproduces is INCONCLUSIVE (exit 2).")

P = {
 "C01": ("occupancy oracle: at every closure/future start no other operation of the object is between its start and its completion-or-drop; every step re-checks ownership", "6/C01"),
 "C02": ("real-time order oracle: at every operation start, every operation on the object whose scheduling call had returned before this one was invoked has finished; returned values are checked against the log prefix", "6/C02"),
 "C03": ("exactly-once + no-stranding: run counters at every start; at quiescence (nothing runnable without a new API call) every accepted operation has run, attributed only when a pool thread is free or spawnable; try_sync probe that nothing is left marked running", "6/C03"),
 "C04": ("sync liveness + result: closure runs once strictly inside the call, value is its own; a sync that has not returned at quiescence with nothing unfinished ahead of it is a violation, for every queue state, pool 0..3 and saturated pools", "6/C04"),
 "C05": ("drop oracle: value destroyed exactly once, after every accepted operation has ended, never used afterwards, and the dropping call returns; last owner dropped from callers, pool jobs and root while work is queued/running/suspended or while a polled future has parked the queue; a drop that never returns because the library lost the operation it waits for", "6/C05"),
 "C06": ("lost wake-up oracle: gates keep every waker and are opened by racing tasks (optionally twice); at quiescence every operation suspended on an opened gate has been resumed, for pool-thread, sync-caller and polling-task runners", "6/C06"),
 "C07": ("future result oracle: Ok(own token) exactly once, never before the operation ended, awaiting tasks always resumed, dropped/detached/never-polled futures still run (pool>=1), pool 0 single-context awaiting makes progress", "6/C07"),
 "C08": ("future_sync slot oracle: body starts only inside a poll of its own future and inside its queue slot (occupancy + order oracles), drop at any point ends the user future before any later operation starts, later operations still run", "6/C08"),
 "C09": ("try_sync oracle: Ok => closure ran once inside the call with own value; Busy => never ran and (probe mode: call executed without pre-emption) the queue's Debug text is unchanged; never performs an indefinitely blocking operation; idle object => Ok", "6/C09"),
 "C10": ("independence oracle: k objects blocked on closed gates (occupying pool threads or suspended) with pool > k; at the quiescence reached with gates still closed every operation on the other objects has completed", "6/C10"),
 "C11": ("pipe_in oracle: processed sequence is a duplicate-free in-order prefix of the pushed sequence (equal if the object outlives the stream), each item inside the occupancy oracle, weak reference only, stream and closure dropped once", "6/C11"),
 "C12": ("pipe oracle: outputs equal f(inputs) in order then None; consumer blocked at quiescence while an output/end is available, or producer stalled below depth with input waiting, is a violation; depths 1..5", "6/C12"),
 "C13": ("suspend oracle (scheduler API level): at resolution everything scheduled before has ended; nothing invoked after starts before resume/drop of the resumer; held work then runs (order oracle) and syncs return", "6/C13"),
 "C14": ("memory-safety canaries under the controlled runtime: value never used after / destroyed twice, closure storage released exactly once and never run or alive after the call returned, borrowed frame alive while the closure runs", "6/C14"),
 "C15": ("panic containment: one injected panic per case in each runner context; (optionally with a payload whose own destructor panics); afterwards every scheduling attempt on the panicked object — also one made by a destructor while its caller unwinds — panics without blocking, healthy objects run a fresh program, the pool starts `max` simultaneous jobs again", "6/C15"),
 "C16": ("pipe shutdown oracle: after the output stream is dropped and with a silent input, at quiescence the input stream and the processing closure have been dropped once and the Desync reference released (while a pool thread is available); judged at the end and at every mid-run quiescence with gates still closed, when nothing else is unfinished on the pipe's object", "6/C16"),
 "C17": ("pool size oracle: spawn hook checks live pool threads <= maximum at every thread creation; after lowering the maximum, despawn returns with live <= maximum; maximum 0 never creates a thread", "6/C17"),
}

checks = []
for pid, (text, ref) in P.items():
    engine = "dv + sched_fuzz (thorough)" if pid not in ("C05", "C14") else "dv + asan_real; sched_fuzz (thorough)"
    checks.append({
        "property_id": pid,
        "quick_cmd": f"./check {pid} quick",
        "thorough_cmd": f"./check {pid} thorough",
        "evidence_file": f"/verif/evidence/{pid}.json",
        "replay_cmd_template": "./check replay {path}",
        "engine": engine,
        "level_claimed": {
            "category": "exploration",
            "text": ("Generated-input search with the thread schedule as part of the generated case: proptest generates (configuration, program, schedule) triples, the real "
                     "library runs them on a deterministic schedule-controlled runtime, and an explicit oracle decides: " + text + ". Exploration is the honest level: the property "
                     "quantifies over all interleavings, which are sampled (hundreds of thousands of distinct non-trivial cases per quick run, millions per thorough run), not enumerated."),
            "design_ref": "DESIGN.md section " + ref,
        },
        "level_note": COMMON_NOTE,
        "technique": ("property-based testing (proptest) with generated schedules on a controlled runtime; reference-model / history-invariant oracles; shrinking to a replay file; "
                      "thorough tier adds coverage-guided fuzzing (libFuzzer) of the same cases" + ("; plus coverage-guided fuzzing of real-thread programs under AddressSanitizer" if pid in ("C05", "C14") else "") + ("; plus the generated cases of the panic-containment profile judged by this property's oracle" if pid in ("C04", "C14", "C17") else "")),
    })

m = {
 "version": 1,
 "setup_cmd": "./check build",
 "hooks": {
   "guard": "desync_verif",
   "enable": "cargo builds /verif/desync-verif (a package whose [lib] path is /repo/src/lib.rs; its build.rs emits --cfg desync_verif) against the /verif/vsched runtime; /repo/Cargo.toml is not touched",
   "baseline_off_cmd": "cd /repo && (cargo nextest run --workspace --no-fail-fast --test-threads 8 --offline || cargo test --workspace --no-fail-fast --offline)",
   "source_commits": HOOK_COMMITS,
   "add_only": True,
 },
 "engines": [
   {"name": "dv", "path": "/verif/dv", "serves_properties": sorted(P.keys()), "kind_free_text": "property-based testing harness (proptest TestRunner per worker, 16 workers) driving the real library on the vsched controlled runtime; stateful programs as op lists + interpreter; shrinking; replay"},
   {"name": "sched_fuzz", "path": "/verif/fuzz", "serves_properties": sorted(P.keys()), "kind_free_text": "cargo-fuzz / libFuzzer target (no sanitizer): bytes are decoded into (configuration, program, schedule), executed deterministically on vsched with the property's oracle inside the target; coverage feedback from the instrumented desync crate; used by every thorough tier"},
   {"name": "asan_real", "path": "/verif/fuzz-asan", "serves_properties": ["C05", "C14"], "kind_free_text": "cargo-fuzz / libFuzzer target with AddressSanitizer (quick and thorough tiers of C05 and C14) and ThreadSanitizer (thorough tier, std rebuilt with -Zbuild-std) on the UNSHIMMED /repo build: generated multi-threaded programs with real threads and block_on; heap canaries"},
   {"name": "vsched", "path": "/verif/vsched", "serves_properties": sorted(P.keys()), "kind_free_text": "deterministic coroutine-based replacement for std Mutex/Condvar/thread/mpsc; the generated schedule picks the next task at every visible operation"},
 ],
 "checks": checks,
 "not_applicable": [],
 "notes": "All 17 properties are decided by generated-input search with explicit oracles. Fixed defects and their replays are listed in /verif/known_findings.jsonl; see DESIGN.md section 7.",
}
json.dump(m, open("MANIFEST.json", "w"), indent=1)
print("wrote MANIFEST.json with", len(checks), "checks")
