#!/bin/bash
# Like tools/run_seeded.sh, but never touches /repo or /verif/target: every change is applied in a scratch worktree of /repo and
# judged by a scratch copy of the harness built against it (tools/scratch_dv.sh). Used to run the matrix while /repo is busy.
# usage: tools/run_seeded_scratch.sh [regex on the id]      (plain checks only; "P:O" and "asan:" forms are left to tools/run_seeded.sh)
cd /verif
filter="${1:-}"; W=/tmp/mx-repo; X=/tmp/mx-dv
[ -d $W ] || { git -C /repo worktree add -q --detach $W HEAD && cp /repo/Cargo.lock $W/; }
for d in seeded/*/; do
  id=$(basename $d); prop=${id%%-*}
  [ -n "$filter" ] && ! [[ "$id" =~ $filter ]] && continue
  git -C $W checkout -q -- . 
  if ! git -C $W apply /verif/$d/patch.diff 2>/dev/null; then echo "$id APPLY-FAILED"; continue; fi
  props=$(jq -r '(.checks // []) | join(" ")' $d/meta.json 2>/dev/null); [ -z "$props" ] && props="$prop"
  plain=""; for q in $props; do [[ "$q" == *:* ]] && echo "$id check=$q SKIPPED (form needs tools/run_seeded.sh)" || plain="$plain $q"; done
  [ -n "$plain" ] && tools/scratch_dv.sh $W $X $plain 2>&1 | sed "s/^check=/$id check=/; s/^BUILD-FAILED/$id BUILD-FAILED/"
  git -C $W checkout -q -- .
done
