#!/bin/bash
# Applies each seeded change (/verif/seeded/<id>/patch.diff) to /repo, runs the quick check of the property it
# breaks (optionally all checks with ALL=1), reverts. usage: tools/run_seeded.sh [filter] 
cd /verif
filter="${1:-}"
for d in seeded/*/; do
  id=$(basename $d); prop=${id%%-*}
  [ -n "$filter" ] && [[ "$id" != *$filter* ]] && continue
  git -C /repo checkout -- . 
  if ! git -C /repo apply /verif/$d/patch.diff 2>/dev/null; then echo "$id APPLY-FAILED"; continue; fi
  if cargo build --release --offline -p dv 2>&1 | grep -qE "^error"; then echo "$id BUILD-FAILED"; git -C /repo checkout -- .; continue; fi
  rm -rf /var/tmp/dv-mut-home; mkdir -p /var/tmp/dv-mut-home; cp known_findings.jsonl /var/tmp/dv-mut-home/
  props=$(jq -r '(.checks // []) | join(" ")' $d/meta.json 2>/dev/null); [ -z "$props" ] && props="$prop"; [ -n "${ALL:-}" ] && props="C01 C02 C03 C04 C05 C06 C07 C08 C09 C10 C11 C12 C13 C14 C15 C16 C17"
  for q in $props; do
    # "P:O" = the cases of profile P judged by the oracle of property O (cross-profile stage of ./check O)
    if [[ "$q" == asan:* ]]; then
      # the sanitizer engine of ./check ${q##*:} (real threads, AddressSanitizer)
      out=$(DV_HOME=/var/tmp/dv-mut-home ./check_asan quick address ${q##*:} 2>&1); rc=$?
      echo "$id check=$q exit=$rc | | $(echo "$out" | grep -aE "ERROR: AddressSanitizer|DV-ASAN" | head -1 | cut -c1-150)"
      rm -f fuzz-asan/artifacts/crash-*
      continue
    fi
    if [[ "$q" == *:* ]]; then xo="--oracle ${q##*:} --cases 20000"; qp=${q%%:*}; else xo=""; qp=$q; fi
    out=$(DV_HOME=/var/tmp/dv-mut-home ./target/release/dv check $qp $xo --tier ${TIER:-quick} 2>&1); rc=$?
    summ=$(echo "$out" | grep -E "^C[0-9]+ (quick|thorough)" | sed -E 's/, [0-9]+ step-bound.*other oracles/ other/; s/, [0-9.]+s \(.*//')
    viol=$(echo "$out" | grep -E "^  C[0-9]+ " | head -1 | cut -c1-150)
    echo "$id check=$q exit=$rc | $summ | $viol"
  done
  git -C /repo checkout -- .
done
rm -rf /var/tmp/dv-mut-home
cargo build --release --offline -p dv 2>&1 | grep -E "^error" | head -3
