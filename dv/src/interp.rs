//! Interpreter: runs a (normalised) case against the real library on the controlled runtime.

use crate::case::*;
use crate::oracle;
use crate::sched::make_chooser;
use crate::world::*;
use desync::scheduler::{self, JobQueue, QueueResumer, SchedulerFuture};
use desync::{Desync, PipeStream, TrySyncError};
use futures::channel::oneshot::Canceled;
use futures::future::BoxFuture;
use futures::prelude::*;
use futures::task::{waker, ArcWake};
use std::cell::UnsafeCell;
use std::pin::Pin;
use std::sync::atomic::{AtomicBool, Ordering};
use std::sync::Arc;
use std::task::{Context, Poll};
use vsched::rt;
use vsched::thread as vthread;

pub const POOL_THREAD_NAME: &str = "desync jobs thread";
const NSLOTS: usize = 4;

#[derive(Clone, Debug)]
pub struct RunOpts {
    pub record_history: bool,
    pub backtraces: bool,
    pub verbose: bool,
    pub max_steps: u64,
    /// one OS thread per simulated thread (one-shot replays only)
    pub os_threads: bool,
}

impl Default for RunOpts {
    fn default() -> RunOpts {
        RunOpts { record_history: false, backtraces: false, verbose: false, max_steps: 60_000, os_threads: false }
    }
}

pub struct Outcome {
    pub status: rt::Status,
    pub violations: Vec<Violation>,
    pub stats: Stats,
    pub steps: u64,
    pub trace: Vec<u8>,
    pub tasks: Vec<rt::TaskInfo>,
    pub history: Vec<String>,
    pub n_ops: usize,
}

// ------------------------------------------------------------------------------------------------
// object handles (both API levels)

pub struct QCell(UnsafeCell<Payload>);
unsafe impl Send for QCell {}
unsafe impl Sync for QCell {}

#[derive(Clone)]
pub enum ObjH {
    D(Arc<Desync<Payload>>),
    Q(Arc<JobQueue>, Arc<QCell>),
}

pub type BoxFut<T> = Pin<Box<dyn Future<Output = T> + Send + 'static>>;

impl ObjH {
    pub fn new(level: Level, obj: usize, w: &Arc<World>) -> ObjH {
        let p = Payload { obj, log: Vec::new(), w: Arc::downgrade(w) };
        match level {
            Level::Desync => ObjH::D(Arc::new(Desync::new(p))),
            Level::Queue => ObjH::Q(scheduler::queue(), Arc::new(QCell(UnsafeCell::new(p)))),
        }
    }

    pub fn desync(&self, f: impl FnOnce(&mut Payload) + Send + 'static) {
        match self {
            ObjH::D(d) => d.desync(f),
            ObjH::Q(q, c) => {
                let c = c.clone();
                scheduler::desync(q, move || f(unsafe { &mut *c.0.get() }))
            }
        }
    }

    pub fn sync<R: Send>(&self, f: impl FnOnce(&mut Payload) -> R + Send) -> R {
        match self {
            ObjH::D(d) => d.sync(f),
            ObjH::Q(q, c) => {
                let c = c.clone();
                scheduler::sync(q, move || f(unsafe { &mut *c.0.get() }))
            }
        }
    }

    pub fn try_sync<R: Send>(&self, f: impl FnOnce(&mut Payload) -> R + Send) -> Result<R, TrySyncError> {
        match self {
            ObjH::D(d) => d.try_sync(f),
            ObjH::Q(q, c) => {
                let c = c.clone();
                scheduler::try_sync(q, move || f(unsafe { &mut *c.0.get() }))
            }
        }
    }

    pub fn future_desync(&self, f: impl for<'b> FnOnce(&'b mut Payload) -> BoxFuture<'b, Res> + Send + 'static) -> SchedulerFuture<Res> {
        match self {
            ObjH::D(d) => d.future_desync(f),
            ObjH::Q(q, c) => {
                let c = c.clone();
                scheduler::future_desync(q, move || {
                    let p: &'static mut Payload = unsafe { &mut *c.0.get() };
                    let fut = f(p);
                    async move {
                        let _keep = c;
                        fut.await
                    }
                })
            }
        }
    }

    pub fn future_sync(&self, f: impl for<'b> FnOnce(&'b mut Payload) -> BoxFuture<'b, Res> + Send + 'static) -> BoxFut<Result<Res, Canceled>> {
        match self {
            ObjH::D(d) => {
                let fut: Pin<Box<dyn Future<Output = Result<Res, Canceled>> + Send + '_>> = Box::pin(d.future_sync(f));
                // the interpreter never releases its handle while such a future is alive (generator rule)
                unsafe { std::mem::transmute::<Pin<Box<dyn Future<Output = Result<Res, Canceled>> + Send + '_>>, BoxFut<Result<Res, Canceled>>>(fut) }
            }
            ObjH::Q(q, c) => {
                let c = c.clone();
                Box::pin(scheduler::future_sync(q, move || {
                    let p: &'static mut Payload = unsafe { &mut *c.0.get() };
                    let fut = f(p);
                    async move {
                        let _keep = c;
                        fut.await
                    }
                }))
            }
        }
    }

    pub fn after(&self, gate: GateWait, f: impl FnOnce(&mut Payload) -> Res + Send + 'static) -> BoxFut<Result<Res, Canceled>> {
        match self {
            ObjH::D(d) => Box::pin(d.after(gate, move |p, _| f(p))),
            ObjH::Q(q, c) => {
                let c = c.clone();
                Box::pin(scheduler::scheduler().after(q, gate, move |_| f(unsafe { &mut *c.0.get() })))
            }
        }
    }

    pub fn desync_raw(&self, f: Box<dyn FnOnce() + Send + 'static>) {
        self.desync(move |_p| f())
    }

    pub fn arc(&self) -> Option<Arc<Desync<Payload>>> {
        match self {
            ObjH::D(d) => Some(d.clone()),
            _ => None,
        }
    }

    pub fn is_last_owner(&self) -> bool {
        match self {
            ObjH::D(d) => Arc::strong_count(d) == 1,
            ObjH::Q(_, c) => Arc::strong_count(c) == 1,
        }
    }

    pub fn debug(&self) -> String {
        // (the queue of an object one of whose operations has panicked may have a poisoned lock: its Debug text is then not
        // available, which is no reason for the harness to die)
        let r = rt::catch_unwind(|| match self {
            ObjH::D(d) => d.verif_queue_debug(),
            ObjH::Q(q, _) => format!("{:?}", q),
        });
        r.unwrap_or_else(|_| "<queue state not available: its lock is poisoned>".to_string())
    }
}

type Handles = Vec<Option<ObjH>>;

// ------------------------------------------------------------------------------------------------
// gates, wakers, block_on

pub struct GateWait {
    w: Arc<World>,
    g: usize,
    op: Option<OpId>,
    /// identifies this await instance (0 = not assigned yet)
    key: usize,
}

impl GateWait {
    pub fn new(w: &Arc<World>, g: usize, op: Option<OpId>) -> GateWait {
        GateWait { w: w.clone(), g, op, key: 0 }
    }
}

impl Future for GateWait {
    type Output = ();
    fn poll(self: Pin<&mut Self>, cx: &mut Context<'_>) -> Poll<()> {
        let this = self.get_mut();
        let ready = this.w.with(|i| {
            if i.gates[this.g].open {
                if let Some(op) = this.op {
                    i.ops[op].waiting_gate = None;
                }
                true
            } else {
                // like a oneshot receiver, an await instance keeps only its latest waker unless the case asks the gate
                // to remember (and later fire) every waker it has ever been given
                if this.key == 0 {
                    i.gates[this.g].next_key += 1;
                    this.key = i.gates[this.g].next_key;
                }
                let keep_all = this.w.case.cfg.gate_keep_all;
                let key = this.key;
                let gs = &mut i.gates[this.g];
                match gs.wakers.iter_mut().find(|(k, _)| *k == key) {
                    Some(slot) if !keep_all => slot.1 = cx.waker().clone(),
                    _ => gs.wakers.push((key, cx.waker().clone())),
                }
                if i.gates[this.g].history.len() < 16 {
                    i.gates[this.g].history.push(cx.waker().clone());
                }
                if let Some(op) = this.op {
                    if !i.ops[op].gate_polled {
                        i.stats.gate_suspensions += 1;
                    }
                    i.ops[op].waiting_gate = Some(this.g);
                    i.ops[op].gate_polled = true;
                    i.ops[op].suspend_step = rt::steps();
                    i.ops[op].last_poll_task = rt::current();
                    let cur = rt::current();
                    i.ops[op].last_poll_stage_seq = i.callers.iter().find(|c| c.task == cur).map(|c| c.stage_seq).unwrap_or(0);
                }
                false
            }
        });
        if ready {
            Poll::Ready(())
        } else {
            this.w.hist(|| format!("suspend on gate g{} (op {:?})", this.g, this.op));
            Poll::Pending
        }
    }
}

/// A yield-style future: its first poll wakes its own waker (so the wake-up arrives while the queue is still
/// marked as running the poll) and returns Pending; the second poll is ready.
pub struct SelfWake {
    w: Arc<World>,
    op: OpId,
    polled: bool,
}

impl Future for SelfWake {
    type Output = ();
    fn poll(self: Pin<&mut Self>, cx: &mut Context<'_>) -> Poll<()> {
        let this = self.get_mut();
        if this.polled {
            this.w.with(|i| i.ops[this.op].waiting_self = false);
            return Poll::Ready(());
        }
        this.polled = true;
        this.w.with(|i| {
            i.stats.self_wakes += 1;
            let o = &mut i.ops[this.op];
            o.waiting_self = true;
            o.suspend_step = rt::steps();
            o.last_poll_task = rt::current();
            let cur = rt::current();
            let seq = i.callers.iter().find(|c| c.task == cur).map(|c| c.stage_seq).unwrap_or(0);
            i.ops[this.op].last_poll_stage_seq = seq;
        });
        this.w.hist(|| format!("self-wake during the poll (op {})", this.op));
        cx.waker().wake_by_ref();
        Poll::Pending
    }
}

struct ThreadWaker {
    thread: vthread::Thread,
    flag: AtomicBool,
}

impl ArcWake for ThreadWaker {
    fn wake_by_ref(arc_self: &Arc<Self>) {
        arc_self.flag.store(true, Ordering::SeqCst);
        arc_self.thread.unpark();
    }
}

/// block_on for the controlled runtime (futures::executor::block_on parks the OS thread)
fn block_on<F: Future + Unpin>(f: &mut F) -> F::Output {
    let tw = Arc::new(ThreadWaker { thread: vthread::current(), flag: AtomicBool::new(false) });
    let wk = waker(tw.clone());
    let mut cx = Context::from_waker(&wk);
    loop {
        if let Poll::Ready(v) = Pin::new(&mut *f).poll(&mut cx) {
            return v;
        }
        while !tw.flag.swap(false, Ordering::SeqCst) {
            vthread::park();
        }
    }
}

struct FlagWaker {
    flag: AtomicBool,
}

impl ArcWake for FlagWaker {
    fn wake_by_ref(arc_self: &Arc<Self>) {
        arc_self.flag.store(true, Ordering::SeqCst);
    }
}

/// Wrapper that records when a future_sync future is being polled by its owner (C08 oracle)
struct PollFlag<F> {
    w: Arc<World>,
    op: OpId,
    f: F,
}

impl<F> Drop for PollFlag<F> {
    fn drop(&mut self) {
        // runs before the wrapped future itself is destroyed: from here on the operation counts as dropped
        // (destroying a future_sync future releases its queue slot, which lets later operations start at once)
        self.w.with(|i| {
            let o = &mut i.ops[self.op];
            o.fut_dropped = true;
            if o.start == 0 {
                o.cancelled = true;
            }
        });
    }
}

impl<F: Future + Unpin> Future for PollFlag<F> {
    type Output = F::Output;
    fn poll(self: Pin<&mut Self>, cx: &mut Context<'_>) -> Poll<F::Output> {
        let this = self.get_mut();
        this.w.with(|i| i.ops[this.op].in_poll += 1);
        let r = Pin::new(&mut this.f).poll(cx);
        this.w.with(|i| i.ops[this.op].in_poll -= 1);
        r
    }
}

// ------------------------------------------------------------------------------------------------
// closures of operations

/// Dropped exactly once when the closure storage is released
struct Token {
    w: Arc<World>,
    op: OpId,
}

impl Drop for Token {
    fn drop(&mut self) {
        let w = self.w.clone();
        w.token_dropped(self.op);
    }
}

/// Marks a nested future_sync future as dropped (cancelled if it never started)
struct NestedFutDropped {
    w: Arc<World>,
    op: OpId,
}

impl Drop for NestedFutDropped {
    fn drop(&mut self) {
        self.w.with(|i| {
            let o = &mut i.ops[self.op];
            o.fut_dropped = true;
            if o.start == 0 {
                o.cancelled = true;
            }
        });
    }
}

/// Ends a future operation when its future completes or is dropped
struct EndGuard {
    w: Arc<World>,
    op: OpId,
    done: bool,
}

impl Drop for EndGuard {
    fn drop(&mut self) {
        if !self.done {
            let panicking = vthread::panicking();
            if panicking {
                self.w.with(|i| i.ops[self.op].panicked = true);
            }
            self.w.end(self.op, !panicking);
        }
    }
}

fn needed_objs(steps: &[Step], out: &mut Vec<usize>) {
    for s in steps {
        match s {
            Step::NestedDesync { o, body, .. } | Step::NestedSync { o, body, .. } | Step::NestedFutDesync { o, body, .. } | Step::AwaitFutSync { o, body, .. } | Step::AwaitFutDesync { o, body, .. } => {
                if !out.contains(&(*o as usize)) {
                    out.push(*o as usize);
                }
                needed_objs(body, out);
            }
            Step::Release { o } => {
                if !out.contains(&(*o as usize)) {
                    out.push(*o as usize);
                }
            }
            _ => {}
        }
    }
}

/// The subset of handles a closure captures: only what its nested steps need
fn capture(hs: &Handles, steps: &[Step]) -> Handles {
    let mut need = vec![];
    needed_objs(steps, &mut need);
    (0..hs.len()).map(|o| if need.contains(&o) { hs[o].clone() } else { None }).collect()
}

/// Releases the handles a closure still holds. Done *inside* the operation (before its end is stamped): dropping a
/// last owner blocks until that object's work is done, and while it does the enclosing operation is not finished.
fn release_captured(w: &Arc<World>, hs: &mut Handles) {
    for o in 0..hs.len() {
        if let Some(h) = hs[o].take() {
            release_handle(w, h, o, None);
        }
    }
}

fn do_panic(w: &Arc<World>, op: OpId) -> ! {
    w.with(|i| {
        i.ops[op].panicked = true;
        i.stats.panics_injected += 1;
        let obj = i.ops[op].obj;
        i.objs[obj].panic_injected = Some(op);
        i.clock += 1;
        i.panic_clock = i.clock;
    });
    w.hist(|| format!("PANIC injected in #{}", op));
    if w.case.cfg.payload_bomb {
        // the payload's destructor panics in turn when it is a pool thread that discards it (dv-injected as well: the message says so)
        std::panic::panic_any(vsched::rt::DropBomb { msg: format!("dv-injected panic in operation #{}", op), on_task_named: "desync jobs thread" });
    }
    panic!("dv-injected panic in operation #{}", op);
}

/// Runs the steps of a plain (non-future) closure
/// A destructor that synchronises with another object
struct SyncGuard {
    w: Arc<World>,
    o: usize,
    id: OpId,
    body: Vec<Step>,
    hs: Handles,
}

impl Drop for SyncGuard {
    fn drop(&mut self) {
        let unwinding = vthread::panicking();
        if unwinding {
            self.w.with(|i| i.stats.syncs_from_destructors_while_unwinding += 1);
        }
        self.w.hist(|| format!("scope guard: sync #{} on o{}{}", self.id, self.o, if unwinding { " (while the job unwinds)" } else { "" }));
        let (w, o, id) = (self.w.clone(), self.o, self.id);
        let body = std::mem::take(&mut self.body);
        let hs = std::mem::take(&mut self.hs);
        // (a panic out of a destructor that runs during unwinding would abort the process)
        if let Err(msg) = rt::catch_unwind(move || nested_sync(&w, o, id, &body, &hs)) {
            let healthy = self.w.with(|i| !i.objs[self.o].expect_panicked && i.objs[self.o].panic_injected.is_none());
            if healthy {
                self.w.fail("C15", "healthy-object-panicked", Some(self.o), Some(self.id), format!("sync from a destructor on the healthy object o{} panicked: {}", self.o, msg.lines().next().unwrap_or("")));
            }
        }
    }
}

fn run_steps(w: &Arc<World>, op: OpId, p: &mut Payload, steps: &[Step], hs: &mut Handles) {
    let mut guards: Vec<SyncGuard> = vec![];
    for s in steps {
        w.check_inside(op);
        match s {
            Step::Touch => w.touch(op, p),
            Step::Yield => vthread::yield_now(),
            Step::NestedDesync { o, body, id } => nested_desync(w, *o as usize, *id, body, hs),
            Step::NestedSync { o, body, id } => {
                if w.case.cfg.guard_syncs {
                    // performed by a scope guard: when the job is over, or while it unwinds
                    guards.push(SyncGuard { w: w.clone(), o: *o as usize, id: *id, body: body.clone(), hs: hs.clone() });
                } else {
                    nested_sync(w, *o as usize, *id, body, hs)
                }
            }
            Step::NestedFutDesync { o, body, id } => {
                if let Some(f) = nested_fut_desync(w, *o as usize, *id, body, hs) {
                    w.with(|i| i.ops[*id].fut_dropped = true);
                    drop(f);
                }
            }
            Step::Release { o } => {
                if let Some(h) = hs[*o as usize].take() {
                    release_handle(w, h, *o as usize, None);
                }
            }
            Step::OpenGate { g } => {
                vthread::yield_now();
                w.open_gate(*g as usize);
            }
            Step::BlockOnGate { g } => {
                let mut gw = GateWait::new(w, *g as usize, None);
                block_on(&mut gw);
            }
            Step::Panic => do_panic(w, op),
            Step::AwaitGate { .. } | Step::AwaitFutSync { .. } | Step::AwaitFutDesync { .. } | Step::SelfWake => {}
        }
    }
    w.check_inside(op);
}

fn make_job(w: &Arc<World>, id: OpId, body: &[Step], hs: &Handles) -> impl FnOnce(&mut Payload) + Send + 'static {
    let w = w.clone();
    let body = body.to_vec();
    let mut hs = capture(hs, &body);
    let token = Token { w: w.clone(), op: id };
    move |p: &mut Payload| {
        let _token = token;
        w.begin(id, p);
        run_steps(&w, id, p, &body, &mut hs);
        release_captured(&w, &mut hs);
        w.end(id, false);
    }
}

fn make_fut_job(w: &Arc<World>, id: OpId, body: &[Step], hs: &Handles) -> impl for<'b> FnOnce(&'b mut Payload) -> BoxFuture<'b, Res> + Send + 'static {
    let w = w.clone();
    let body = body.to_vec();
    let hs = capture(hs, &body);
    let token = Token { w: w.clone(), op: id };
    move |p: &mut Payload| fut_body(w, id, p, body, hs, token)
}

fn fut_body<'a>(w: Arc<World>, id: OpId, p: &'a mut Payload, body: Vec<Step>, mut hs: Handles, token: Token) -> BoxFuture<'a, Res> {
    w.begin(id, p);
    let seen = p.log.len() as u32;
    let guard = EndGuard { w: w.clone(), op: id, done: false };
    let w2 = w.clone();
    let inner = async move {
        let _token = token;
        let mut guard = guard;
        for s in body.iter() {
            w.check_inside(id);
            match s {
                Step::Touch => w.touch(id, p),
                Step::Yield => vthread::yield_now(),
                Step::AwaitGate { g } => {
                    GateWait::new(&w, *g as usize, Some(id)).await;
                }
                Step::SelfWake => SelfWake { w: w.clone(), op: id, polled: false }.await,
                Step::NestedDesync { o, body, id: nid } => nested_desync(&w, *o as usize, *nid, body, &hs),
                Step::NestedSync { o, body, id: nid } => nested_sync(&w, *o as usize, *nid, body, &hs),
                Step::NestedFutDesync { o, body, id: nid } => {
                    if let Some(f) = nested_fut_desync(&w, *o as usize, *nid, body, &hs) {
                        w.with(|i| i.ops[*nid].fut_dropped = true);
                        drop(f);
                    }
                }
                Step::AwaitFutDesync { o, body, id: nid } => {
                    if let Some(f) = nested_fut_desync(&w, *o as usize, *nid, body, &hs) {
                        let r = f.await;
                        check_future_result(&w, *nid, r);
                    }
                }
                Step::AwaitFutSync { o, body, id: nid } => {
                    if let Some(h) = hs[*o as usize].clone() {
                        w.inv(*nid);
                        let f = h.future_sync(make_fut_job(&w, *nid, body, &hs));
                        w.ret(*nid);
                        // if the enclosing future is dropped at this await, the nested future goes with it
                        let dropped = NestedFutDropped { w: w.clone(), op: *nid };
                        let r = PollFlag { w: w.clone(), op: *nid, f }.await;
                        drop(dropped);
                        check_future_result(&w, *nid, r);
                    }
                }
                Step::Release { o } => {
                    if let Some(h) = hs[*o as usize].take() {
                        release_handle(&w, h, *o as usize, None);
                    }
                }
                Step::OpenGate { g } => {
                    vthread::yield_now();
                    w.open_gate(*g as usize);
                }
                Step::BlockOnGate { g } => {
                    let mut gw = GateWait::new(&w, *g as usize, None);
                    block_on(&mut gw);
                }
                Step::Panic => do_panic(&w, id),
            }
        }
        w.check_inside(id);
        release_captured(&w, &mut hs);
        w.end(id, false);
        guard.done = true;
        Res { op: id as u32, seen }
    }
    .boxed();
    Box::pin(SlotBound { inner: Some(inner), w: w2, op: id })
}

/// A hand-written future around the operation's async block: it stands for a future that keeps its `&mut T` borrow until it is
/// destroyed (and may use it in its destructor). The library has to destroy it inside the operation's slot: once another
/// operation of the object has begun, the borrow is aliased.
struct SlotBound<'a> {
    inner: Option<BoxFuture<'a, Res>>,
    w: Arc<World>,
    op: OpId,
}

impl<'a> Future for SlotBound<'a> {
    type Output = Res;
    fn poll(mut self: Pin<&mut Self>, cx: &mut Context<'_>) -> Poll<Res> {
        match self.inner.as_mut() {
            Some(f) => f.as_mut().poll(cx),
            None => Poll::Pending,
        }
    }
}

impl<'a> Drop for SlotBound<'a> {
    fn drop(&mut self) {
        drop(self.inner.take());
        let id = self.op;
        let later = self.w.with(|i| {
            let me = &i.ops[id];
            if me.end == 0 || me.panicked {
                // (not completed: a cancellation, which EndGuard accounts for)
                return None;
            }
            i.stats.futures_destroyed_after_completion += 1;
            i.ops.iter().enumerate().find(|(aid, a)| *aid != id && a.obj == me.obj && a.start > me.end).map(|(aid, a)| (aid, a.start, me.end, me.obj, me.kind))
        });
        if let Some((aid, astart, end, obj, kind)) = later {
            let d = format!("the future of {:?} #{} on o{} completed at t={} but was only destroyed after #{} had begun on the same object (t={}): a future that holds its borrow of the data until it is dropped would alias it", kind, id, obj, end, aid, astart);
            if kind == Kind::FutSync {
                self.w.note("C08", "future-destroyed-after-slot", Some(obj), Some(id), d.clone());
            }
            self.w.fail("C14", "borrow-outlived-slot", Some(obj), Some(id), d);
        }
    }
}

fn nested_desync(w: &Arc<World>, o: usize, id: OpId, body: &[Step], hs: &Handles) {
    if let Some(h) = hs[o].as_ref() {
        w.inv(id);
        h.desync(make_job(w, id, body, hs));
        w.ret(id);
    }
}

fn sync_call(w: &Arc<World>, h: &ObjH, id: OpId, body: &[Step], hs: &Handles) -> Res {
    let w2 = w.clone();
    let mut chs = capture(hs, body);
    let token = Token { w: w.clone(), op: id };
    // a value in this frame that the closure borrows (sync closures need not be 'static)
    let frame_alive = AtomicBool::new(true);
    let fa = &frame_alive;
    let r = h.sync(move |p: &mut Payload| {
        let _token = token;
        w2.begin(id, p);
        let seen = p.log.len() as u32;
        assert!(fa.load(Ordering::SeqCst));
        run_steps(&w2, id, p, body, &mut chs);
        release_captured(&w2, &mut chs);
        w2.end(id, false);
        Res { op: id as u32, seen }
    });
    frame_alive.store(false, Ordering::SeqCst);
    r
}

fn nested_sync(w: &Arc<World>, o: usize, id: OpId, body: &[Step], hs: &Handles) {
    if let Some(h) = hs[o].clone() {
        w.inv(id);
        let r = sync_call(w, &h, id, body, hs);
        check_sync_result(w, id, Some(r));
        w.ret(id);
    }
}

fn nested_fut_desync(w: &Arc<World>, o: usize, id: OpId, body: &[Step], hs: &Handles) -> Option<SchedulerFuture<Res>> {
    let h = hs[o].as_ref()?;
    w.inv(id);
    let f = h.future_desync(make_fut_job(w, id, body, hs));
    w.ret(id);
    Some(f)
}

/// sync / try_sync returned: the closure must have run exactly once inside the call and the value must be its own
fn check_sync_result(w: &Arc<World>, id: OpId, r: Option<Res>) {
    let mut bad = None;
    w.with(|i| {
        let o = &i.ops[id];
        let prop = if o.kind == Kind::TrySync { "C09" } else { "C04" };
        match r {
            Some(r) => {
                if o.runs != 1 || o.start == 0 || o.end == 0 {
                    bad = Some((prop, "closure-not-run-once", format!("call #{} returned a value but its closure ran {} times (start={}, end={})", id, o.runs, o.start, o.end)));
                } else if r.op as usize != id || r.seen != o.seen {
                    bad = Some((prop, "wrong-result", format!("call #{} returned {:?}, expected op={} seen={}", id, r, id, o.seen)));
                } else if o.token_drops != 1 {
                    bad = Some(("C14", "closure-alive-after-return", format!("closure of #{} was released {} times when its call returned", id, o.token_drops)));
                }
            }
            None => {
                if o.runs != 0 {
                    bad = Some(("C09", "busy-but-ran", format!("try_sync #{} returned Busy but its closure ran {} times", id, o.runs)));
                }
            }
        }
    });
    if let Some((p, c, d)) = bad {
        let obj = w.with(|i| i.ops[id].obj);
        w.fail(p, c, Some(obj), Some(id), d);
    }
}

/// A future for op `id` resolved with `r`
fn check_future_result(w: &Arc<World>, id: OpId, r: Result<Res, Canceled>) {
    let mut bad = None;
    w.with(|i| {
        let o = &mut i.ops[id];
        let prop = if o.kind == Kind::FutSync { "C08" } else { "C07" };
        i.stats.futures_awaited += 1;
        if o.resolved {
            bad = Some((prop, "resolved-twice", format!("future of #{} resolved twice", id)));
        }
        o.resolved = true;
        match r {
            Ok(r) => {
                if o.end == 0 || o.runs != 1 {
                    bad = Some((prop, "resolved-before-finished", format!("future of #{} resolved to {:?} although the operation has not finished (runs={}, start={}, end={})", id, r, o.runs, o.start, o.end)));
                } else if r.op as usize != id || r.seen != o.seen {
                    bad = Some((prop, "wrong-result", format!("future of #{} resolved to {:?}, expected op={} seen={}", id, r, id, o.seen)));
                }
            }
            Err(Canceled) => {
                if !o.panicked && !i.objs[o.obj].expect_panicked {
                    bad = Some((prop, "spurious-cancel", format!("future of #{} resolved to Canceled although its operation did not panic", id)));
                }
            }
        }
    });
    w.hist(|| format!("future of #{} resolved {:?}", id, r));
    if let Some((p, c, d)) = bad {
        let obj = w.with(|i| i.ops[id].obj);
        w.fail(p, c, Some(obj), Some(id), d);
    }
}

/// Drops a handle; if it is the last owner the drop must destroy the value exactly once before returning
/// Drops `v` the way a thread that panics on its own account drops what it owns: during unwinding
fn drop_while_unwinding<T>(v: T) {
    let _ = rt::catch_unwind(move || {
        let _v = v;
        panic!("dv: the caller panics while it owns this value");
    });
}

/// A handle on a panicked object cannot be dropped normally (Desync::drop panics by design). It is let go the way a
/// panicking owner lets it go: dropped while unwinding, which frees the queue with whatever is still in it and leaves the
/// value alone (keeping it forever instead costs several KB per generated case).
fn dispose_panicked(h: ObjH) {
    if !h.is_last_owner() {
        drop(h);
        return;
    }
    let _ = rt::catch_unwind(move || {
        let _h = h;
        panic!("dv: disposing of a panicked object");
    });
}

fn release_handle(w: &Arc<World>, h: ObjH, o: usize, caller: Option<usize>) {
    let last = h.is_last_owner();
    if last {
        let pending = w.with(|i| {
            i.stats.last_owner_drops += 1;
            let pending = i.ops.iter().any(|a| a.obj == o && a.accepted && !a.ended() && !a.cancelled && !a.busy && a.kind != Kind::Suspend && a.kind != Kind::Pipe && a.kind != Kind::PipeIn);
            if pending {
                i.stats.last_owner_drop_with_pending += 1;
            }
            i.objs[o].dropping_by = Some(rt::current());
            pending
        });
        w.hist(|| format!("drop last owner of o{} (work pending: {})", o, pending));
        if let Some(c) = caller {
            w.set_stage(c, Stage::Dropping(o));
        }
    }
    let is_desync = matches!(h, ObjH::D(_));
    if w.with(|i| i.panic_case) {
        drop(h);
    } else if caller.is_some() && w.case.cfg.unwinding_drops {
        // the caller thread panics on its own account while it owns the handle: the handle is dropped by the unwinding
        if last {
            w.with(|i| i.stats.unwinding_last_owner_drops += 1);
        }
        struct DropsHandle(Option<ObjH>, Arc<World>, Option<usize>);
        impl Drop for DropsHandle {
            fn drop(&mut self) {
                let h = self.0.take();
                if let Err(msg) = rt::catch_unwind(move || drop(h)) {
                    unexpected_panic(&self.1, "C05", self.2, msg);
                }
            }
        }
        let g = DropsHandle(Some(h), w.clone(), caller);
        let _ = rt::catch_unwind(move || {
            let _g = g;
            panic!("dv: the caller panics while it owns a handle");
        });
    } else if let Err(msg) = rt::catch_unwind(move || drop(h)) {
        unexpected_panic(w, "C05", caller, msg);
    }
    if last {
        let (dead, drops) = w.with(|i| {
            i.objs[o].dropping_by = None;
            (i.objs[o].dead, i.objs[o].drops)
        });
        if is_desync && (!dead || drops != 1) {
            w.fail("C05", "not-destroyed", Some(o), None, format!("dropping the last owner of o{} returned but the value was destroyed {} times", o, drops));
        }
    }
}

// ------------------------------------------------------------------------------------------------
// streams for pipes

pub struct TStream {
    w: Arc<World>,
    s: usize,
}

impl Stream for TStream {
    type Item = u32;
    fn poll_next(self: Pin<&mut Self>, cx: &mut Context<'_>) -> Poll<Option<u32>> {
        let this = self.get_mut();
        let mut wake_self = false;
        let polled_after_end = this.w.with(|i| i.streams[this.s].end_returned);
        if polled_after_end {
            let (prop, obj) = this.w.with(|i| (if i.streams[this.s].is_pipe { "C12" } else { "C11" }, i.streams[this.s].pipe_obj));
            this.w.fail(prop, "polled-after-end", obj, None, format!("input stream s{} was polled again after it had returned None: the pipe must stop once its stream has ended", this.s));
        }
        let r = this.w.with(|i| {
            let always = this.w.case.cfg.stream_always_register;
            let budget = this.w.case.cfg.stream_self_wakes;
            let st = &mut i.streams[this.s];
            if let Some(v) = st.items.pop_front() {
                if always {
                    st.waker = Some(cx.waker().clone());
                }
                Poll::Ready(Some(v))
            } else if st.closed {
                st.end_returned = true;
                Poll::Ready(None)
            } else {
                st.waker = Some(cx.waker().clone());
                st.polled_pending += 1;
                if st.self_wakes < budget {
                    // cooperative yield: "poll me again", said from inside the poll
                    st.self_wakes += 1;
                    st.waker = None;
                    wake_self = true;
                }
                Poll::Pending
            }
        });
        this.w.hist(|| format!("stream s{} poll_next -> {:?}{}", this.s, r, if wake_self { " (wakes itself during the poll)" } else { "" }));
        if wake_self {
            this.w.with(|i| {
                i.stats.stream_self_wakes += 1;
                i.streams[this.s].in_self_wake = true;
            });
            cx.waker().wake_by_ref();
            this.w.with(|i| i.streams[this.s].in_self_wake = false);
        }
        r
    }
}

impl Drop for TStream {
    fn drop(&mut self) {
        let root_holds = self.w.case.cfg.root_holds;
        let early = self.w.with(|i| {
            let st = &mut i.streams[self.s];
            st.drops += 1;
            // the pipe lets go of its input although the input has not ended, its consumer object certainly still has
            // an owner (the root) and - for pipe() - the output stream has not been dropped
            let obj_alive = root_holds && !i.root_released && st.pipe_obj.map(|o| !i.objs[o].dead && !i.objs[o].expect_panicked).unwrap_or(false);
            !st.closed && obj_alive && !(st.is_pipe && st.out_dropped) && !i.panic_case
        });
        self.w.hist(|| format!("stream s{} dropped", self.s));
        if self.w.case.cfg.chained_streams {
            // this stream owned the only sender of the next one: that one now ends
            let nxt = self.s + 1;
            let open = self.w.with(|i| i.streams.get(nxt).map(|st| st.used && !st.closed).unwrap_or(false));
            if open {
                self.w.with(|i| i.stats.chained_closes += 1);
                stream_event(&self.w, nxt, None, true);
            }
        }
        if self.w.case.cfg.stream_wakes_on_drop {
            if let Some(wk) = self.w.with(|i| i.streams[self.s].waker.take()) {
                self.w.with(|i| i.stats.stream_drop_wakes += 1);
                self.w.hist(|| format!("stream s{} wakes its last waker from its destructor", self.s));
                wk.wake();
            }
        }
        if early {
            let (prop, obj) = self.w.with(|i| (if i.streams[self.s].is_pipe { "C12" } else { "C11" }, i.streams[self.s].pipe_obj));
            self.w.fail(prop, "input-stream-released-early", obj, None, format!("the pipe dropped its input stream s{} although the stream has not ended and the Desync is still alive: later items can never be processed", self.s));
        }
    }
}

/// Dropped with the processing closure of a pipe
struct FnToken {
    w: Arc<World>,
    s: usize,
}

impl Drop for FnToken {
    fn drop(&mut self) {
        self.w.with(|i| i.streams[self.s].fn_drops += 1);
        self.w.hist(|| format!("processing closure of s{} dropped", self.s));
    }
}

fn stream_event(w: &Arc<World>, s: usize, push: Option<u32>, close: bool) {
    let wk = w.with(|i| {
        let st = &mut i.streams[s];
        if push.is_some() && st.closed {
            // nothing is pushed into a stream that has ended (the root may have closed it in its final stage)
            return None;
        }
        if let Some(v) = push {
            st.items.push_back(v);
            st.pushed.push(v);
            if let Some(obj) = st.pipe_obj {
                if i.objs[obj].occupant.is_some() {
                    i.stats.items_while_busy += 1;
                }
            }
        }
        if close {
            st.closed = true;
        }
        // was a poll job of the consumer object in flight?
        st.waker.take()
    });
    w.hist(|| format!("stream s{} event push={:?} close={} (waker registered: {})", s, push, close, wk.is_some()));
    if let Some(wk) = wk {
        wk.wake();
    }
}

/// Processing function of a pipe: one dynamic operation per item
fn pipe_item<'a>(w: Arc<World>, pipe_op: OpId, s: usize, p: &'a mut Payload, item: u32, body: Vec<Step>, hs: Handles) -> BoxFuture<'a, u32> {
    // allocate a dynamic op record for this item
    let id = w.with(|i| {
        let obj = i.ops[pipe_op].obj;
        let phase = i.ops[pipe_op].phase;
        let mut rec = OpRec::new(Kind::PipeItem, obj, phase, None, Some(pipe_op));
        i.clock += 1;
        rec.inv = i.clock;
        rec.ret = i.clock;
        rec.accepted = true;
        rec.inv_task = rt::current();
        // drop counter of the token is not used for items
        i.ops.push(rec);
        i.ops.len() - 1
    });
    w.begin(id, p);
    let guard = EndGuard { w: w.clone(), op: id, done: false };
    async move {
        let mut guard = guard;
        let hs = hs;
        for st in body.iter() {
            w.check_inside(id);
            match st {
                Step::Touch => w.touch(id, p),
                Step::Yield => vthread::yield_now(),
                Step::AwaitGate { g } => {
                    // successive items wait for successive gates, so that one item can be ready while the next one is held up
                    let ng = (w.case.cfg.gates as usize).max(1);
                    GateWait::new(&w, (*g as usize + item as usize) % ng, Some(id)).await;
                }
                Step::SelfWake => SelfWake { w: w.clone(), op: id, polled: false }.await,
                Step::NestedDesync { o, body, id: nid } => {
                    // nested op ids inside pipe bodies are reused per item: only the first item uses them
                    let fresh = w.with(|i| i.ops[*nid].inv == 0);
                    if fresh {
                        nested_desync(&w, *o as usize, *nid, body, &hs)
                    }
                }
                _ => {}
            }
        }
        w.with(|i| {
            let st = &mut i.streams[s];
            st.processed.push(item);
            if st.is_pipe && st.depth > 0 && st.processed.len() - st.outputs.len() >= st.depth {
                i.stats.backpressure_hits += 1;
            }
        });
        w.end(id, false);
        guard.done = true;
        item.wrapping_mul(3).wrapping_add(1)
    }
    .boxed()
}

// ------------------------------------------------------------------------------------------------
// caller tasks

enum FutH {
    Sched(SchedulerFuture<Res>),
    Boxed(BoxFut<Result<Res, Canceled>>),
}

impl FutH {
    fn poll_once(&mut self, cx: &mut Context<'_>) -> Poll<Result<Res, Canceled>> {
        match self {
            FutH::Sched(f) => Pin::new(f).poll(cx),
            FutH::Boxed(f) => f.as_mut().poll(cx),
        }
    }
}

enum Slot {
    Fut { op: OpId, kind: Kind, fut: FutH, flag: Arc<FlagWaker> },
    Suspend { op: OpId, obj: usize, fut: BoxFut<Result<QueueResumer, Canceled>> },
    Resumer { op: OpId, obj: usize, r: QueueResumer },
}

struct CallerEnv {
    w: Arc<World>,
    ci: usize,
    gidx: usize,
    hs: Handles,
    slots: Vec<Option<Slot>>,
    pipes: Vec<Option<(usize, PipeStream<u32>)>>,
}

/// A task without a thread of its own: its waker polls it then and there, on whatever thread called wake (the Waker contract
/// allows it; single-threaded and "run inline" executors do it). A library that calls a waker with one of its own locks held
/// deadlocks against such a task.
struct InlineTask {
    w: Arc<World>,
    op: OpId,
    kind: Kind,
    st: Sh<InlineSt<FutH>>,
}

struct InlineSt<T> {
    inner: Option<T>,
    polling: bool,
    notified: bool,
    done: bool,
}

impl ArcWake for InlineTask {
    fn wake_by_ref(a: &Arc<Self>) {
        InlineTask::run(a, true);
    }
}

impl InlineTask {
    fn run(a: &Arc<Self>, from_waker: bool) {
        let go = a.st.with(|s| {
            if s.done {
                false
            } else if s.polling {
                s.notified = true;
                false
            } else {
                s.polling = true;
                true
            }
        });
        if !go {
            return;
        }
        loop {
            let mut f = match a.st.with(|s| s.inner.take()) {
                Some(f) => f,
                None => {
                    a.st.with(|s| s.polling = false);
                    return;
                }
            };
            let wk = waker(a.clone());
            let mut cx = Context::from_waker(&wk);
            if from_waker {
                a.w.with(|i| i.stats.inline_polls += 1);
            }
            a.w.hist(|| format!("inline task of #{} polled{}", a.op, if from_waker { " from inside a wake-up" } else { "" }));
            let r = {
                let mut sf = SlotFuture { w: &a.w, op: a.op, kind: a.kind, fut: &mut f };
                Pin::new(&mut sf).poll(&mut cx)
            };
            match r {
                Poll::Ready(r) => {
                    check_future_result(&a.w, a.op, r);
                    a.w.with(|i| {
                        i.ops[a.op].fut_dropped = true;
                        for t in i.inline_futs.iter_mut() {
                            if t.0 == a.op {
                                t.1 = true;
                            }
                        }
                    });
                    a.st.with(|s| {
                        s.done = true;
                        s.polling = false;
                    });
                    drop(f);
                    return;
                }
                Poll::Pending => {
                    let again = a.st.with(|s| {
                        s.inner = Some(f);
                        if s.notified {
                            s.notified = false;
                            true
                        } else {
                            s.polling = false;
                            false
                        }
                    });
                    if !again {
                        return;
                    }
                }
            }
        }
    }
}

/// The inline consumer of a pipe's output stream
struct InlineConsumer {
    w: Arc<World>,
    s: usize,
    drop_on_wake: bool,
    st: Sh<InlineSt<PipeStream<u32>>>,
}

impl ArcWake for InlineConsumer {
    fn wake_by_ref(a: &Arc<Self>) {
        InlineConsumer::run(a, true);
    }
}

impl InlineConsumer {
    fn finished(&self) {
        self.w.with(|i| {
            for t in i.inline_consumers.iter_mut() {
                if t.0 == self.s {
                    t.1 = true;
                }
            }
        });
        self.st.with(|s| {
            s.done = true;
            s.polling = false;
        });
    }

    fn run(a: &Arc<Self>, from_waker: bool) {
        let go = a.st.with(|s| {
            if s.done {
                false
            } else if s.polling {
                s.notified = true;
                false
            } else {
                s.polling = true;
                true
            }
        });
        if !go {
            return;
        }
        if from_waker && a.drop_on_wake {
            // a cancelled task: the wake-up tears it down, and the output stream with it
            if let Some(out) = a.st.with(|s| s.inner.take()) {
                a.w.with(|i| {
                    i.streams[a.s].out_dropped = true;
                    if !i.streams[a.s].closed {
                        i.stats.pipe_dropped_open += 1;
                    }
                });
                a.w.hist(|| format!("inline consumer of s{}: its wake-up drops the output stream", a.s));
                a.finished();
                drop(out);
            }
            return;
        }
        loop {
            let mut out = match a.st.with(|s| s.inner.take()) {
                Some(o) => o,
                None => {
                    a.st.with(|s| s.polling = false);
                    return;
                }
            };
            let wk = waker(a.clone());
            let mut cx = Context::from_waker(&wk);
            if from_waker {
                a.w.with(|i| i.stats.inline_polls += 1);
            }
            let r = Pin::new(&mut out).poll_next(&mut cx);
            match r {
                Poll::Ready(v) => {
                    record_pipe_output(&a.w, a.s, v);
                    if v.is_none() {
                        a.finished();
                        drop(out);
                        return;
                    }
                    a.st.with(|s| s.inner = Some(out));
                    // keep reading
                }
                Poll::Pending => {
                    let again = a.st.with(|s| {
                        s.inner = Some(out);
                        if s.notified {
                            s.notified = false;
                            true
                        } else {
                            s.polling = false;
                            false
                        }
                    });
                    if !again {
                        return;
                    }
                }
            }
        }
    }
}

/// What the consumer of a pipe got from a poll of the output stream
fn record_pipe_output(w: &Arc<World>, s: usize, r: Option<u32>) {
    w.hist(|| format!("pipe s{} output {:?}", s, r));
    let mut bad = None;
    w.with(|i| {
        let st = &mut i.streams[s];
        match r {
            Some(v) => {
                let n = st.outputs.len();
                // exactly f(input n)
                let expect = st.pushed.get(n).map(|x| x.wrapping_mul(3).wrapping_add(1));
                if expect != Some(v) {
                    bad = Some(format!("output #{} of pipe s{} is {} but input #{} maps to {:?}", n, s, v, n, expect));
                }
                st.outputs.push(v);
            }
            None => {
                st.out_ended = true;
                if !st.closed || st.outputs.len() != st.pushed.len() {
                    bad = Some(format!("pipe s{} ended after {} outputs; input closed={} with {} items", s, st.outputs.len(), st.closed, st.pushed.len()));
                }
            }
        }
    });
    if let Some(d) = bad {
        w.fail("C12", "wrong-output", None, None, d);
    }
}

struct SlotFuture<'a> {
    w: &'a Arc<World>,
    op: OpId,
    kind: Kind,
    fut: &'a mut FutH,
}

impl<'a> Future for SlotFuture<'a> {
    type Output = Result<Res, Canceled>;
    fn poll(self: Pin<&mut Self>, cx: &mut Context<'_>) -> Poll<Self::Output> {
        let this = self.get_mut();
        if this.kind == Kind::FutSync {
            this.w.with(|i| i.ops[this.op].in_poll += 1);
        }
        let r = this.fut.poll_once(cx);
        if this.kind == Kind::FutSync {
            this.w.with(|i| i.ops[this.op].in_poll -= 1);
        }
        r
    }
}

/// join(a, b): one task, one waker, both futures polled (a first) whenever the task is woken
struct JoinTwo {
    w: Arc<World>,
    gidx: usize,
    a: Option<(OpId, Kind, FutH)>,
    b: Option<(OpId, Kind, FutH)>,
}

impl Future for JoinTwo {
    type Output = ();
    fn poll(self: Pin<&mut Self>, cx: &mut Context<'_>) -> Poll<()> {
        let this = self.get_mut();
        let w = this.w.clone();
        for which in 0..2 {
            let slot = if which == 0 { &mut this.a } else { &mut this.b };
            let ready = match slot.as_mut() {
                Some((op, kind, fut)) => {
                    let mut sf = SlotFuture { w: &w, op: *op, kind: *kind, fut };
                    match Pin::new(&mut sf).poll(cx) {
                        Poll::Ready(r) => Some((*op, r)),
                        Poll::Pending => None,
                    }
                }
                None => None,
            };
            if let Some((op, r)) = ready {
                check_future_result(&w, op, r);
                w.with(|i| i.ops[op].fut_dropped = true);
                *slot = None;
            }
        }
        // (the stage names the first future that is still outstanding)
        match (this.a.as_ref(), this.b.as_ref()) {
            (None, None) => Poll::Ready(()),
            (Some((op, _, _)), _) | (None, Some((op, _, _))) => {
                w.set_stage(this.gidx, Stage::Awaiting(*op));
                Poll::Pending
            }
        }
    }
}

impl CallerEnv {
    fn stage(&self, s: Stage) {
        self.w.set_stage(self.gidx, s);
    }

    /// The property that states what the call made by `op` must do (used when that call panics unexpectedly)
    fn prop_of(&self, op: &Op) -> &'static str {
        let slot_kind = |slot: &u8| match self.slots.get(*slot as usize).and_then(|s| s.as_ref()) {
            Some(Slot::Fut { kind: Kind::FutSync, .. }) => "C08",
            Some(Slot::Fut { .. }) => "C07",
            Some(Slot::Suspend { .. }) | Some(Slot::Resumer { .. }) => "C13",
            None => "C07",
        };
        match op {
            Op::Desync { .. } => "C03",
            Op::Sync { .. } => "C04",
            Op::TrySync { .. } => "C09",
            Op::FutDesync { .. } | Op::After { .. } => "C07",
            Op::FutSync { .. } => "C08",
            Op::Await { slot } | Op::SyncWait { slot } | Op::PollOnce { slot } | Op::DropFut { slot } | Op::Detach { slot } | Op::AwaitInline { slot } => slot_kind(slot),
            Op::AwaitJoin { a, .. } => slot_kind(a),
            Op::Release { .. } => "C05",
            Op::Suspend { .. } | Op::AwaitSuspend { .. } | Op::Resume { .. } | Op::DropResumer { .. } => "C13",
            Op::PipeIn { .. } => "C11",
            Op::Pipe { .. } | Op::Consume { .. } | Op::ConsumeInline { .. } | Op::SetDepth { .. } => "C12",
            Op::DropPipe { .. } => "C16",
            Op::Attempt { .. } => "C15",
            Op::OpenGate { .. } | Op::Rewake { .. } => "C06",
            _ => "C03",
        }
    }

    fn drop_slot(&mut self, slot: usize, detach: bool) {
        if let Some(s) = self.slots[slot].take() {
            match s {
                Slot::Fut { op, kind, fut, .. } => {
                    self.w.with(|i| {
                        let o = &mut i.ops[op];
                        o.fut_dropped = true;
                        if !o.resolved {
                            i.stats.futures_dropped_unresolved += 1;
                        }
                        if kind == Kind::FutSync && o.start == 0 {
                            // never started: cancelled
                            o.cancelled = true;
                            i.stats.futsync_cancelled += 1;
                        } else if kind == Kind::FutSync && o.end == 0 {
                            i.stats.futsync_cancelled += 1;
                        }
                    });
                    self.w.hist(|| format!("drop future of #{}", op));
                    match fut {
                        FutH::Sched(f) => {
                            if detach {
                                f.detach()
                            } else {
                                drop(f)
                            }
                        }
                        FutH::Boxed(f) => drop(f),
                    }
                    // a future_sync op whose future is gone must have been ended by the drop
                    if kind == Kind::FutSync {
                        let bad = self.w.with(|i| {
                            let o = &i.ops[op];
                            o.start != 0 && o.end == 0
                        });
                        if bad {
                            let obj = self.w.with(|i| i.ops[op].obj);
                            self.w.fail("C08", "not-cancelled-by-drop", Some(obj), Some(op), format!("future_sync future of #{} was dropped mid-operation but the operation's future is still alive", op));
                        }
                    }
                }
                Slot::Suspend { op, obj, fut } => {
                    // mark first: destroying the future drops the resumer, which resumes the queue
                    self.w.with(|i| {
                        for s in i.objs[obj].suspensions.iter_mut() {
                            if s.op == op {
                                s.fut_dropped = true;
                            }
                        }
                    });
                    self.w.hist(|| format!("drop suspend future of #{}", op));
                    drop(fut);
                }
                Slot::Resumer { op, obj, r } => {
                    self.w.with(|i| {
                        i.clock += 1;
                        let c = i.clock;
                        for s in i.objs[obj].suspensions.iter_mut() {
                            if s.op == op {
                                s.resumed_at = c;
                            }
                        }
                    });
                    self.w.hist(|| format!("drop resumer of #{}", op));
                    drop(r);
                }
            }
        }
    }

    fn run_op(&mut self, op: &Op) {
        let w = self.w.clone();
        match op {
            Op::Nop => {}
            Op::Yield => vthread::yield_now(),
            Op::Desync { o, body, id } => {
                if let Some(h) = self.hs[*o as usize].as_ref() {
                    self.stage(Stage::InCall(*id));
                    w.inv(*id);
                    h.desync(make_job(&w, *id, body, &self.hs));
                    w.ret(*id);
                }
            }
            Op::Sync { o, body, id } => {
                if let Some(h) = self.hs[*o as usize].clone() {
                    self.stage(Stage::InCall(*id));
                    w.inv(*id);
                    let r = sync_call(&w, &h, *id, body, &self.hs);
                    check_sync_result(&w, *id, Some(r));
                    w.ret(*id);
                }
            }
            Op::TrySync { o, body, probe, id } => {
                if let Some(h) = self.hs[*o as usize].clone() {
                    self.stage(Stage::InCall(*id));
                    w.inv(*id);
                    let contended = w.with(|i| {
                        let obj = i.ops[*id].obj;
                        i.ops.iter().enumerate().any(|(aid, a)| aid != *id && a.obj == obj && a.inv != 0 && !a.ended() && !a.cancelled && !a.busy)
                    });
                    let w2 = w.clone();
                    let mut chs = capture(&self.hs, body);
                    let token = Token { w: w.clone(), op: *id };
                    let id2 = *id;
                    let call = || {
                        h.try_sync(move |p: &mut Payload| {
                            let _token = token;
                            w2.begin(id2, p);
                            let seen = p.log.len() as u32;
                            run_steps(&w2, id2, p, body, &mut chs);
                            release_captured(&w2, &mut chs);
                            w2.end(id2, false);
                            Res { op: id2 as u32, seen }
                        })
                    };
                    let r = if *probe {
                        // no other task runs between the two observations unless this task blocks
                        let (before, r, after, blocked) = rt::atomic(|| {
                            let b0 = rt::block_count(rt::current());
                            let before = h.debug();
                            let r = call();
                            let after = h.debug();
                            (before, r, after, rt::block_count(rt::current()) != b0)
                        });
                        if r.is_err() && !blocked && before != after {
                            w.fail("C09", "busy-disturbed-queue", Some(*o as usize), Some(*id), format!("try_sync #{} answered Busy and changed the queue from '{}' to '{}'", id, before, after));
                        }
                        r
                    } else {
                        call()
                    };
                    // never blocks
                    let bc = rt::blocking_calls(rt::current());
                    let bc0 = w.with(|i| i.ops[*id].blocking_calls_at_inv);
                    let has_blocking_step = body.iter().any(|s| matches!(s, Step::NestedSync { .. } | Step::BlockOnGate { .. } | Step::Release { .. }));
                    match r {
                        Ok(r) => {
                            w.with(|i| {
                                i.stats.trysync_ok += 1;
                                if contended {
                                    i.stats.trysync_contended += 1
                                }
                            });
                            check_sync_result(&w, *id, Some(r));
                        }
                        Err(TrySyncError::Busy) => {
                            w.with(|i| {
                                i.ops[*id].busy = true;
                                i.stats.trysync_busy += 1;
                                if contended {
                                    i.stats.trysync_contended += 1
                                }
                            });
                            w.hist(|| format!("try_sync #{} -> Busy", id));
                            check_sync_result(&w, *id, None);
                        }
                    }
                    if bc != bc0 && !has_blocking_step {
                        w.fail("C09", "blocked", Some(*o as usize), Some(*id), format!("try_sync #{} performed {} indefinitely-blocking operation(s)", id, bc - bc0));
                    }
                    w.ret(*id);
                }
            }
            Op::FutDesync { o, body, slot, id } => {
                if let Some(h) = self.hs[*o as usize].as_ref() {
                    self.stage(Stage::InCall(*id));
                    w.inv(*id);
                    let f = h.future_desync(make_fut_job(&w, *id, body, &self.hs));
                    w.ret(*id);
                    // (a shrunk program may reuse a slot that still holds a future: that future is dropped, like any other)
                    self.drop_slot(*slot as usize, false);
                    self.slots[*slot as usize] = Some(Slot::Fut { op: *id, kind: Kind::FutDesync, fut: FutH::Sched(f), flag: Arc::new(FlagWaker { flag: AtomicBool::new(false) }) });
                }
            }
            Op::FutSync { o, body, slot, id } => {
                if let Some(h) = self.hs[*o as usize].as_ref() {
                    self.stage(Stage::InCall(*id));
                    w.inv(*id);
                    let f = h.future_sync(make_fut_job(&w, *id, body, &self.hs));
                    w.ret(*id);
                    // (a shrunk program may reuse a slot that still holds a future: that future is dropped, like any other)
                    self.drop_slot(*slot as usize, false);
                    self.slots[*slot as usize] = Some(Slot::Fut { op: *id, kind: Kind::FutSync, fut: FutH::Boxed(f), flag: Arc::new(FlagWaker { flag: AtomicBool::new(false) }) });
                }
            }
            Op::After { o, g, body, slot, id } => {
                if let Some(h) = self.hs[*o as usize].as_ref() {
                    self.stage(Stage::InCall(*id));
                    w.inv(*id);
                    let gate = GateWait::new(&w, *g as usize, Some(*id));
                    let w2 = w.clone();
                    let id2 = *id;
                    let body2 = body.clone();
                    let mut chs = capture(&self.hs, body);
                    let token = Token { w: w.clone(), op: *id };
                    let f = h.after(gate, move |p: &mut Payload| {
                        let _token = token;
                        w2.begin(id2, p);
                        let seen = p.log.len() as u32;
                        run_steps(&w2, id2, p, &body2, &mut chs);
                        release_captured(&w2, &mut chs);
                        w2.end(id2, false);
                        Res { op: id2 as u32, seen }
                    });
                    w.ret(*id);
                    // (a shrunk program may reuse a slot that still holds a future: that future is dropped, like any other)
                    self.drop_slot(*slot as usize, false);
                    self.slots[*slot as usize] = Some(Slot::Fut { op: *id, kind: Kind::After, fut: FutH::Boxed(f), flag: Arc::new(FlagWaker { flag: AtomicBool::new(false) }) });
                }
            }
            Op::Await { slot } => {
                if let Some(Slot::Fut { op, kind, mut fut, .. }) = self.slots[*slot as usize].take() {
                    self.stage(Stage::Awaiting(op));
                    w.hist(|| format!("await future of #{}", op));
                    let r = {
                        let mut sf = SlotFuture { w: &w, op, kind, fut: &mut fut };
                        block_on(&mut sf)
                    };
                    check_future_result(&w, op, r);
                    w.with(|i| i.ops[op].fut_dropped = true);
                    drop(fut);
                }
            }
            Op::AwaitJoin { a, b } => {
                if *a != *b && matches!(self.slots[*a as usize], Some(Slot::Fut { .. })) && matches!(self.slots[*b as usize], Some(Slot::Fut { .. })) {
                    let fa = match self.slots[*a as usize].take() { Some(Slot::Fut { op, kind, fut, .. }) => (op, kind, fut), _ => unreachable!() };
                    let fb = match self.slots[*b as usize].take() { Some(Slot::Fut { op, kind, fut, .. }) => (op, kind, fut), _ => unreachable!() };
                    self.stage(Stage::Awaiting(fa.0));
                    w.hist(|| format!("await join of the futures of #{} and #{}", fa.0, fb.0));
                    w.with(|i| i.stats.joins += 1);
                    let mut j = JoinTwo { w: w.clone(), gidx: self.gidx, a: Some(fa), b: Some(fb) };
                    block_on(&mut j);
                }
            }
            Op::SyncWait { slot } => {
                if let Some(Slot::Fut { op, fut: FutH::Sched(f), .. }) = self.slots[*slot as usize].take() {
                    self.stage(Stage::SyncWaiting(op));
                    w.hist(|| format!("sync-wait future of #{}", op));
                    let r = f.sync();
                    check_future_result(&w, op, r);
                    w.with(|i| i.ops[op].fut_dropped = true);
                }
            }
            Op::PollOnce { slot } => {
                let mut resolved = None;
                if let Some(Slot::Fut { op, kind, fut, flag }) = self.slots[*slot as usize].as_mut() {
                    let wk = waker(flag.clone());
                    let mut cx = Context::from_waker(&wk);
                    let opid = *op;
                    w.hist(|| format!("poll-once future of #{}", opid));
                    let mut sf = SlotFuture { w: &w, op: *op, kind: *kind, fut };
                    if let Poll::Ready(r) = Pin::new(&mut sf).poll(&mut cx) {
                        resolved = Some((*op, r));
                    }
                }
                if let Some((op, r)) = resolved {
                    check_future_result(&w, op, r);
                    w.with(|i| i.ops[op].fut_dropped = true);
                    self.slots[*slot as usize] = None;
                }
            }
            Op::DropFut { slot } => self.drop_slot(*slot as usize, false),
            Op::Detach { slot } => self.drop_slot(*slot as usize, true),
            Op::Release { o } => {
                if let Some(h) = self.hs[*o as usize].take() {
                    release_handle(&w, h, *o as usize, Some(self.gidx));
                }
            }
            Op::OpenGate { g } => {
                vthread::yield_now();
                w.open_gate(*g as usize);
            }
            Op::Rewake { g } => {
                vthread::yield_now();
                w.rewake(*g as usize);
            }
            Op::WaitFor { caller, idx, ev } => {
                self.stage(Stage::WaitFor);
                let phase = w.with(|i| i.callers[self.gidx].phase);
                let target = target_op(&w.case, phase, *caller as usize, *idx as usize);
                let tg = w.with(|i| i.callers.iter().position(|c| c.phase == phase && c.idx == *caller as usize));
                if let (Some(t), Some(tg)) = (target, tg) {
                    loop {
                        let done = w.with(|i| {
                            let o = &i.ops[t];
                            let hit = match ev {
                                Ev::Ret => o.ret != 0,
                                Ev::End => o.end != 0 || o.cancelled || o.busy,
                            };
                            hit || i.callers[tg].stage == Stage::Done || i.final_stage
                        });
                        if done {
                            break;
                        }
                        w.with(|i| i.baton_waiters.push(rt::current()));
                        vthread::park();
                    }
                }
            }
            Op::Suspend { o, slot, id } => {
                if let Some(ObjH::Q(q, _)) = self.hs[*o as usize].as_ref() {
                    self.stage(Stage::InCall(*id));
                    w.inv(*id);
                    let f = scheduler::scheduler().suspend(q);
                    w.ret(*id);
                    w.with(|i| i.objs[*o as usize].suspensions.push(SuspendSt { op: *id, resolved_at: 0, resumed_at: 0, fut_dropped: false }));
                    self.slots[*slot as usize] = Some(Slot::Suspend { op: *id, obj: *o as usize, fut: Box::pin(f) });
                }
            }
            Op::AwaitSuspend { slot } => {
                if let Some(Slot::Suspend { op, obj, mut fut }) = self.slots[*slot as usize].take() {
                    self.stage(Stage::Awaiting(op));
                    let r = block_on(&mut fut);
                    match r {
                        Ok(resumer) => {
                            // everything scheduled before the suspend request must have completed
                            let mut bad = None;
                            w.with(|i| {
                                i.clock += 1;
                                let c = i.clock;
                                for s in i.objs[obj].suspensions.iter_mut() {
                                    if s.op == op {
                                        s.resolved_at = c;
                                    }
                                }
                                let sinv = i.ops[op].inv;
                                for (aid, a) in i.ops.iter().enumerate() {
                                    if a.obj == obj && a.accepted && a.ret != 0 && a.ret < sinv && !a.ended() && !a.cancelled && !a.busy && a.kind != Kind::Suspend {
                                        bad = Some(format!("suspend #{} resolved although #{} ({:?}), scheduled before it, has not finished", op, aid, a.kind));
                                    }
                                }
                                i.ops[op].end = c;
                                i.ops[op].resolved = true;
                            });
                            w.hist(|| format!("suspend #{} in force", op));
                            if let Some(d) = bad {
                                w.fail("C13", "resolved-early", Some(obj), Some(op), d);
                            }
                            self.slots[*slot as usize] = Some(Slot::Resumer { op, obj, r: resumer });
                        }
                        Err(_) => {
                            w.fail("C13", "suspend-cancelled", Some(obj), Some(op), format!("suspend future #{} resolved to Canceled", op));
                        }
                    }
                }
            }
            Op::Resume { slot } => {
                if let Some(Slot::Resumer { op, obj, r }) = self.slots[*slot as usize].take() {
                    vthread::yield_now();
                    w.with(|i| {
                        i.clock += 1;
                        let c = i.clock;
                        for s in i.objs[obj].suspensions.iter_mut() {
                            if s.op == op {
                                s.resumed_at = c;
                            }
                        }
                    });
                    w.hist(|| format!("resume #{}", op));
                    r.resume();
                }
            }
            Op::DropResumer { slot } => {
                if let Some(Slot::Resumer { .. }) = self.slots[*slot as usize].as_ref() {
                    vthread::yield_now();
                    self.drop_slot(*slot as usize, false);
                }
            }
            Op::PipeIn { o, s, body, id } => {
                if let Some(arc) = self.hs[*o as usize].as_ref().and_then(|h| h.arc()) {
                    self.stage(Stage::InCall(*id));
                    w.inv(*id);
                    let stream = TStream { w: w.clone(), s: *s as usize };
                    let w2 = w.clone();
                    let body2 = body.clone();
                    let chs = capture(&self.hs, body);
                    let ftoken = FnToken { w: w.clone(), s: *s as usize };
                    let (id2, s2) = (*id, *s as usize);
                    w.with(|i| {
                        i.streams[s2].used = true;
                        i.streams[s2].pipe_obj = Some(*o as usize);
                    });
                    wake_batons(&w);
                    desync::pipe_in(arc, stream, move |p: &mut Payload, item: u32| {
                        let _t = &ftoken;
                        let fut = pipe_item(w2.clone(), id2, s2, p, item, body2.clone(), chs.clone());
                        async move {
                            fut.await;
                        }
                        .boxed()
                    });
                    w.ret(*id);
                    w.with(|i| i.ops[*id].end = i.clock);
                }
            }
            Op::Pipe { o, s, depth, body, slot, id } => {
                if let Some(arc) = self.hs[*o as usize].as_ref().and_then(|h| h.arc()) {
                    self.stage(Stage::InCall(*id));
                    w.inv(*id);
                    let stream = TStream { w: w.clone(), s: *s as usize };
                    let w2 = w.clone();
                    let body2 = body.clone();
                    let chs = capture(&self.hs, body);
                    let ftoken = FnToken { w: w.clone(), s: *s as usize };
                    let (id2, s2) = (*id, *s as usize);
                    w.with(|i| {
                        i.streams[s2].used = true;
                        i.streams[s2].is_pipe = true;
                        i.streams[s2].depth = if *depth > 0 { *depth as usize } else { 5 };
                        i.streams[s2].pipe_obj = Some(*o as usize);
                    });
                    wake_batons(&w);
                    let mut out = desync::pipe(arc, stream, move |p: &mut Payload, item: u32| {
                        let _t = &ftoken;
                        pipe_item(w2.clone(), id2, s2, p, item, body2.clone(), chs.clone())
                    });
                    if *depth > 0 {
                        out.set_backpressure_depth(*depth as usize);
                    }
                    w.ret(*id);
                    w.with(|i| i.ops[*id].end = i.clock);
                    self.pipes[*slot as usize] = Some((*s as usize, out));
                }
            }
            Op::Consume { slot, k } => {
                if let Some((s, out)) = self.pipes[*slot as usize].as_mut() {
                    let s = *s;
                    self.w.set_stage(self.gidx, Stage::Consuming(s));
                    for _ in 0..*k {
                        let ended = w.with(|i| i.streams[s].out_ended);
                        if ended {
                            break;
                        }
                        w.with(|i| {
                            if i.streams[s].processed.len() == i.streams[s].outputs.len() {
                                i.stats.consumer_pending += 1;
                            }
                        });
                        let mut nx = out.next();
                        let r = if w.case.cfg.consumer_probe_polls {
                            // now_or_never(), then wait with another waker
                            let probe = waker(Arc::new(FlagWaker { flag: AtomicBool::new(false) }));
                            let mut cx = Context::from_waker(&probe);
                            match Pin::new(&mut nx).poll(&mut cx) {
                                Poll::Ready(v) => v,
                                Poll::Pending => {
                                    w.with(|i| i.stats.consumer_probe_pending += 1);
                                    w.hist(|| format!("pipe s{} probe poll: pending", s));
                                    block_on(&mut nx)
                                }
                            }
                        } else {
                            block_on(&mut nx)
                        };
                        record_pipe_output(&w, s, r);
                    }
                }
            }
            Op::SetDepth { slot, depth } => {
                if let Some((s, out)) = self.pipes[*slot as usize].as_mut() {
                    let s = *s;
                    w.with(|i| {
                        i.streams[s].depth = *depth as usize;
                        i.stats.depth_changes += 1;
                    });
                    w.hist(|| format!("back-pressure depth of pipe s{} set to {}", s, depth));
                    out.set_backpressure_depth(*depth as usize);
                }
            }
            Op::AwaitInline { slot } => {
                if let Some(Slot::Fut { op, kind, fut, .. }) = self.slots[*slot as usize].take() {
                    w.with(|i| i.inline_futs.push((op, false)));
                    w.hist(|| format!("future of #{} handed to an inline task", op));
                    let task = Arc::new(InlineTask { w: w.clone(), op, kind, st: Sh::new(InlineSt { inner: Some(fut), polling: false, notified: false, done: false }) });
                    InlineTask::run(&task, false);
                }
            }
            Op::ConsumeInline { slot, drop_on_wake } => {
                if let Some((s, out)) = self.pipes[*slot as usize].take() {
                    w.with(|i| i.inline_consumers.push((s, false)));
                    w.hist(|| format!("output of pipe s{} handed to an inline consumer", s));
                    let task = Arc::new(InlineConsumer { w: w.clone(), s, drop_on_wake: *drop_on_wake, st: Sh::new(InlineSt { inner: Some(out), polling: false, notified: false, done: false }) });
                    InlineConsumer::run(&task, false);
                }
            }
            Op::DropPipe { slot } => {
                if let Some((s, out)) = self.pipes[*slot as usize].take() {
                    vthread::yield_now();
                    w.with(|i| {
                        i.streams[s].out_dropped = true;
                        if !i.streams[s].closed {
                            i.stats.pipe_dropped_open += 1;
                        }
                        let obj = i.streams[s].pipe_obj.unwrap_or(0);
                        if i.objs[obj].occupant.is_some() {
                            i.stats.pipe_dropped_while_job += 1;
                        }
                    });
                    w.hist(|| format!("drop pipe output of s{}", s));
                    if w.case.cfg.unwinding_drops {
                        drop_while_unwinding(out);
                    } else {
                        drop(out);
                    }
                }
            }
            Op::Attempt { o, kind, id } => {
                if let Some(h) = self.hs[*o as usize].clone() {
                    self.stage(Stage::InCall(*id));
                    w.inv(*id);
                    let hs = self.hs.clone();
                    let w2 = w.clone();
                    let id2 = *id;
                    let kind2 = *kind;
                    let bc0 = rt::blocking_calls(rt::current());
                    let unwinding = w.case.cfg.unwinding_attempts;
                    let attempt = move || rt::catch_unwind(move || match kind2 {
                        AttemptKind::Desync => h.desync(make_job(&w2, id2, &[], &hs)),
                        AttemptKind::Sync => {
                            sync_call(&w2, &h, id2, &[], &hs);
                        }
                        AttemptKind::TrySync => {
                            let w3 = w2.clone();
                            let _ = h.try_sync(move |p: &mut Payload| {
                                w3.begin(id2, p);
                                w3.end(id2, false);
                            });
                        }
                        AttemptKind::FutDesync => {
                            let f = h.future_desync(make_fut_job(&w2, id2, &[], &hs));
                            drop(f);
                        }
                        AttemptKind::FutSyncAwait => {
                            let f = h.future_sync(make_fut_job(&w2, id2, &[], &hs));
                            let mut pf = PollFlag { w: w2.clone(), op: id2, f };
                            let _ = block_on(&mut pf);
                        }
                    });
                    let r = if unwinding {
                        // the attempt is made by a destructor (under its own catch_unwind) while the caller unwinds from a panic of its
                        // own: thread::panicking() is true for the whole call, and the attempt must fail just as loudly
                        struct Attempts<F: FnOnce() -> Result<(), String>>(Option<F>, Arc<std::sync::Mutex<Option<Result<(), String>>>>);
                        impl<F: FnOnce() -> Result<(), String>> Drop for Attempts<F> {
                            fn drop(&mut self) {
                                let r = (self.0.take().unwrap())();
                                *self.1.lock().unwrap() = Some(r);
                            }
                        }
                        let slot = Arc::new(std::sync::Mutex::new(None));
                        let g = Attempts(Some(attempt), slot.clone());
                        w.hist(|| format!("attempt #{} is made while the caller unwinds", id2));
                        let _ = rt::catch_unwind(move || {
                            let _g = g;
                            panic!("dv: the caller panics on its own account (a destructor makes the attempt)");
                        });
                        let r = slot.lock().unwrap().take();
                        r.expect("the destructor ran")
                    } else {
                        attempt()
                    };
                    let bc1 = rt::blocking_calls(rt::current());
                    let expect_panicked = w.with(|i| i.objs[*o as usize].expect_panicked);
                    match r {
                        Ok(()) => {
                            if expect_panicked {
                                w.fail("C15", "attempt-did-not-fail", Some(*o as usize), Some(*id), format!("{:?} on the panicked object o{} returned normally instead of panicking", kind, o));
                            }
                            w.ret(*id);
                        }
                        Err(msg) => {
                            w.hist(|| format!("attempt #{} panicked: {}", id, msg.lines().next().unwrap_or("")));
                            w.with(|i| {
                                i.ops[*id].panicked = true;
                                i.ops[*id].cancelled = true;
                                i.stats.attempts_panicked += 1;
                            });
                            if !expect_panicked {
                                w.fail("C15", "healthy-object-panicked", Some(*o as usize), Some(*id), format!("{:?} on healthy object o{} panicked: {}", kind, o, msg));
                            }
                            if bc1 != bc0 && expect_panicked {
                                w.fail("C15", "attempt-blocked", Some(*o as usize), Some(*id), format!("{:?} on the panicked object o{} blocked before failing", kind, o));
                            }
                        }
                    }
                }
            }
        }
        self.stage(Stage::Idle);
    }
}

fn wake_batons(w: &Arc<World>) {
    let waiters = w.with(|i| std::mem::take(&mut i.baton_waiters));
    for t in waiters {
        rt::unpark_nosched(t);
    }
}

/// The id of op `idx` of caller `caller` in `phase`, if it is an operation with stamps
pub fn target_op(case: &Case, phase: usize, caller: usize, idx: usize) -> Option<OpId> {
    let ops = case.phases.get(phase)?.callers.get(caller)?;
    match ops.get(idx)? {
        Op::Desync { id, .. } | Op::Sync { id, .. } | Op::TrySync { id, .. } | Op::FutDesync { id, .. } | Op::FutSync { id, .. } | Op::After { id, .. } => Some(*id),
        _ => None,
    }
}

/// A panic that no step of the case asked for came out of a call made by the harness. Never returns.
fn unexpected_panic(w: &Arc<World>, prop: &'static str, caller: Option<usize>, msg: String) -> ! {
    let first = msg.lines().next().unwrap_or("").to_string();
    let in_harness = first.rsplit(" @ ").next().map(|loc| loc.starts_with("dv/src/") || loc.starts_with("vsched/src/") || loc.contains("/dv/src/") || loc.contains("/vsched/src/")).unwrap_or(false);
    let (obj, op) = match caller {
        Some(c) => w.with(|i| match i.callers[c].stage {
            Stage::InCall(op) | Stage::Awaiting(op) | Stage::SyncWaiting(op) => (Some(i.ops[op].obj), Some(op)),
            Stage::Dropping(o) => (Some(o), None),
            _ => (None, None),
        }),
        None => (None, None),
    };
    if in_harness {
        w.fail("HARNESS", "harness-panicked", obj, op, format!("the harness itself panicked: {}", first));
    }
    w.fail(prop, "call-panicked", obj, op, format!("a call on a healthy object panicked although no operation of this case panics: {}", first));
}

fn caller_main(w: Arc<World>, gidx: usize, ci: usize, ops: Vec<Op>, hs: Handles, catch_panics: bool) {
    let mut env = CallerEnv { w: w.clone(), ci, gidx, hs, slots: (0..NSLOTS).map(|_| None).collect(), pipes: (0..NSLOTS).map(|_| None).collect() };
    let _ = env.ci;
    for (pos, op) in ops.iter().enumerate() {
        w.with(|i| i.callers[gidx].pos = pos);
        if catch_panics {
            // a panicking sync-like call unwinds through the caller: contain it per op (C15)
            let envp: *mut CallerEnv = &mut env;
            let r = rt::catch_unwind(|| unsafe { (*envp).run_op(op) });
            if let Err(msg) = r {
                w.hist(|| format!("caller {} op {} unwound: {}", ci, pos, msg.lines().next().unwrap_or("")));
                w.with(|i| {
                    if let Stage::InCall(op) | Stage::SyncWaiting(op) = i.callers[gidx].stage {
                        i.ops[op].call_unwound = true;
                    }
                });
                // the damage of a panic stays with its object: a call on an object none of whose operations has panicked must not panic
                let healthy_obj = w.with(|i| match i.callers[gidx].stage {
                    Stage::InCall(op) | Stage::SyncWaiting(op) | Stage::Awaiting(op) => {
                        let o = i.ops[op].obj;
                        if !i.objs[o].expect_panicked && i.objs[o].panic_injected.is_none() && i.ops[op].kind != Kind::Attempt { Some((o, op)) } else { None }
                    }
                    _ => None,
                });
                if let Some((o, op)) = healthy_obj {
                    let first = msg.lines().next().unwrap_or("").to_string();
                    if !first.contains("dv/src/") && !first.contains("vsched/src/") && !first.contains("dv-injected") {
                        w.fail("C15", "healthy-object-panicked", Some(o), Some(op), format!("a call on the healthy object o{} panicked: {}", o, first));
                    }
                }
                env.stage(Stage::Idle);
            }
        } else {
            // no operation of this case panics on purpose: a panic unwinding out of a library call is a failure of
            // that call (it neither returned its value nor completed), reported against the property of the call
            let prop = env.prop_of(op);
            let envp: *mut CallerEnv = &mut env;
            let r = rt::catch_unwind(|| unsafe { (*envp).run_op(op) });
            if let Err(msg) = r {
                unexpected_panic(&w, prop, Some(gidx), msg);
            }
        }
    }
    // implicit end of scope: futures first, then pipes, then handles
    for s in 0..NSLOTS {
        env.drop_slot(s, false);
    }
    for s in 0..NSLOTS {
        if let Some((si, out)) = env.pipes[s].take() {
            w.with(|i| i.streams[si].out_dropped = true);
            if w.case.cfg.unwinding_drops {
                drop_while_unwinding(out);
            } else {
                drop(out);
            }
        }
    }
    let panicked_objs: Vec<bool> = w.with(|i| i.objs.iter().map(|o| o.expect_panicked).collect());
    for o in 0..env.hs.len() {
        if let Some(h) = env.hs[o].take() {
            if panicked_objs[o] {
                // dropping a panicked Desync outside unwinding panics by design: not part of any property
                dispose_panicked(h);
            } else {
                release_handle(&w, h, o, Some(gidx));
            }
        }
    }
    env.stage(Stage::Done);
    // wake anybody waiting for this caller
    let waiters = w.with(|i| std::mem::take(&mut i.baton_waiters));
    for t in waiters {
        rt::unpark_nosched(t);
    }
}

// ------------------------------------------------------------------------------------------------
// root task

fn case_has_panic(case: &Case) -> bool {
    fn steps_have(steps: &[Step]) -> bool {
        steps.iter().any(|s| match s {
            Step::Panic => true,
            Step::NestedDesync { body, .. } | Step::NestedSync { body, .. } | Step::NestedFutDesync { body, .. } | Step::AwaitFutSync { body, .. } | Step::AwaitFutDesync { body, .. } => steps_have(body),
            _ => false,
        })
    }
    case.phases.iter().any(|p| {
        p.callers.iter().any(|c| {
            c.iter().any(|op| match op {
                Op::Desync { body, .. } | Op::Sync { body, .. } | Op::TrySync { body, .. } | Op::FutDesync { body, .. } | Op::FutSync { body, .. } | Op::After { body, .. } => steps_have(body),
                Op::Attempt { .. } => true,
                _ => false,
            })
        })
    })
}

fn root_main(w: Arc<World>) {
    let case = w.case.clone();
    let sched = scheduler::scheduler();
    sched.verif_set_max_threads(case.cfg.pool as usize);
    w.with(|i| i.cur_max = case.cfg.pool as usize);
    {
        let w2 = w.clone();
        rt::set_spawn_hook(Box::new(move |name, live| {
            if name == POOL_THREAD_NAME {
                let (max, bad) = w2.with(|i| {
                    i.stats.pool_tasks_created += 1;
                    if live == i.cur_max {
                        i.stats.spawn_at_limit += 1;
                    }
                    // (while a despawn is joining threads it has already removed from the pool, those still count as alive here)
                    (i.cur_max, live > i.cur_max && !i.despawn_in_progress)
                });
                if bad {
                    w2.fail("C17", "pool-exceeds-maximum", None, None, format!("a pool thread was created although {} are alive and the maximum is {}", live - 1, max));
                }
            }
        }));
    }
    let catch_panics = case_has_panic(&case);
    let mut handles: Handles = (0..case.cfg.objects as usize).map(|o| Some(ObjH::new(case.cfg.level, o, &w))).collect();
    for g in case.cfg.pre_open.iter() {
        w.open_gate(*g as usize);
    }
    let n_phases = case.phases.len();
    for (pi, phase) in case.phases.iter().enumerate() {
        w.with(|i| {
            i.phase = pi;
            i.root_stage = format!("phase {} root actions", pi);
        });
        let mut late_raises: Vec<RootAct> = vec![];
        for act in phase.root.iter() {
            if phase.root_late && matches!(act, RootAct::Despawn) {
                continue;
            }
            // a raise of the maximum through the public setter is deferred in the same way: it then runs while the callers of the
            // phase are making their scheduling calls (a raise only: while the maximum is being lowered, a thread that a racing
            // call creates under the old maximum is no violation, so no sound bound could be stated for the spawn oracle)
            if phase.root_late && matches!(act, RootAct::SetPoolPublic { n, atomic: false } if (*n as usize) > w.with(|i| i.cur_max)) {
                late_raises.push(act.clone());
                continue;
            }
            match act {
                RootAct::SetPool { n } => {
                    if (*n as usize) < rt::live_named(POOL_THREAD_NAME) {
                        w.with(|i| i.stats.max_lowered_below_live += 1);
                    }
                    if (*n as usize) > w.with(|i| i.cur_max) {
                        // raising the maximum is what lets waiting queues have a thread: only the library's own call asks for one
                        w.with(|i| i.cur_max = *n as usize);
                        rt::atomic(|| sched.set_max_threads(*n as usize));
                    } else {
                        sched.verif_set_max_threads(*n as usize);
                    }
                    w.with(|i| {
                        i.cur_max = *n as usize;
                        if *n == 0 {
                            i.pool_zero = true;
                        }
                    });
                }
                RootAct::SetPoolPublic { n, atomic } => {
                    w.with(|i| i.cur_max = (*n as usize).max(i.cur_max));
                    if *atomic {
                        rt::atomic(|| sched.set_max_threads(*n as usize));
                    } else {
                        sched.set_max_threads(*n as usize);
                    }
                    w.with(|i| {
                        i.cur_max = *n as usize;
                        if *n == 0 {
                            i.pool_zero = true;
                        }
                    });
                }
                RootAct::SpawnThread => {
                    // deliberately exceeds the maximum (documented): the oracle allows for it
                    w.with(|i| i.cur_max += 1);
                    sched.spawn_thread();
                }
                RootAct::Despawn => {
                    // despawning joins the pool threads: no job may be blocked on something only the root opens later
                    for g in 0..case.cfg.gates as usize {
                        w.open_gate(g);
                    }
                    if !case.cfg.despawn_without_quiescence {
                        w.with(|i| i.root_stage = "before despawn: wait for quiescence".to_string());
                        rt::wait_quiescent();
                    }
                    w.with(|i| i.root_stage = "despawn_threads_if_overloaded".to_string());
                    sched.despawn_threads_if_overloaded();
                    let (live, max) = (rt::live_named(POOL_THREAD_NAME), sched_max(&w));
                    if live > max {
                        w.fail("C17", "despawn-left-too-many", None, None, format!("despawn_threads_if_overloaded returned with {} live pool threads, maximum {}", live, max));
                    }
                }
                RootAct::OpenGate { g } => w.open_gate(*g as usize),
                RootAct::Rewake { g } => w.rewake(*g as usize),
            }
        }
        if phase.capacity_probe {
            oracle::capacity_probe(&w, &handles);
        }
        // spawn the tasks of this phase
        for (si, prog) in phase.producers.iter().enumerate() {
            if prog.is_empty() {
                continue;
            }
            let w2 = w.clone();
            let prog = prog.clone();
            vthread::spawn_local(&format!("producer{}", si), move || {
                // most items should arrive while the pipe exists: wait (a little) for the pipe to be created
                loop {
                    let go = w2.with(|i| i.streams[si].used || i.final_stage || i.callers.iter().all(|c| c.stage == Stage::Done));
                    if go {
                        break;
                    }
                    w2.with(|i| i.baton_waiters.push(rt::current()));
                    vthread::park();
                }
                let mut next = w2.with(|i| i.streams[si].pushed.len() as u32);
                for op in prog {
                    match op {
                        POp::Yield => vthread::yield_now(),
                        POp::Push { n } => {
                            for k in 0..n {
                                // (a large push is a burst: all of it is there the next time the stream is polled)
                                if n <= 8 || k == 0 {
                                    vthread::yield_now();
                                }
                                next += 1;
                                stream_event(&w2, si, Some(next), false);
                            }
                        }
                        POp::Close => {
                            vthread::yield_now();
                            stream_event(&w2, si, None, true);
                        }
                        POp::PushDuring => {
                            loop {
                                let go = w2.with(|i| {
                                    let busy = i.streams[si].pipe_obj.map(|o| i.objs[o].occupant.is_some()).unwrap_or(false);
                                    busy || i.final_stage
                                });
                                w2.hist(|| format!("producer s{} push-during check: go={}", si, go));
                                if go {
                                    break;
                                }
                                w2.with(|i| i.baton_waiters.push(rt::current()));
                                vthread::park();
                            }
                            let closed = w2.with(|i| i.streams[si].closed);
                            if !closed {
                                next += 1;
                                stream_event(&w2, si, Some(next), false);
                            }
                        }
                    }
                }
            });
        }
        for (wi, prog) in phase.wakers.iter().enumerate() {
            let w2 = w.clone();
            let prog = prog.clone();
            vthread::spawn_local(&format!("waker{}", wi), move || {
                for op in prog {
                    match op {
                        WOp::Yield => vthread::yield_now(),
                        WOp::Open { g } => {
                            vthread::yield_now();
                            w2.open_gate(g as usize);
                        }
                        WOp::Rewake { g } => {
                            vthread::yield_now();
                            w2.rewake(g as usize);
                        }
                    }
                }
            });
        }
        let last_phase = pi + 1 == n_phases;
        for (ci, ops) in phase.callers.iter().enumerate() {
            let w2 = w.clone();
            let ops = ops.clone();
            let hs = handles.clone();
            let gidx = w.with(|i| {
                i.callers.push(CallerSt { phase: pi, idx: ci, task: usize::MAX, stage: Stage::Idle, pos: 0, stage_seq: 1 });
                i.callers.len() - 1
            });
            let h = vthread::spawn_local(&format!("caller{}.{}", pi, ci), move || caller_main(w2, gidx, ci, ops, hs, catch_panics));
            w.with(|i| i.callers[gidx].task = h.task_id());
        }
        if last_phase && !case.cfg.root_holds {
            w.with(|i| {
                i.root_stage = "root releases its handles".to_string();
                i.root_released = true;
            });
            for o in 0..handles.len() {
                if let Some(h) = handles[o].take() {
                    release_handle(&w, h, o, None);
                }
            }
        }
        if phase.root_late {
            // raise the maximum while the callers of this phase are scheduling work: from the moment the call begins the new maximum
            // is the bound for the spawn oracle (old <= new)
            for act in late_raises.iter() {
                if let RootAct::SetPoolPublic { n, .. } = act {
                    if (*n as usize) > w.with(|i| i.cur_max) {
                        w.with(|i| {
                            i.cur_max = *n as usize;
                            i.root_stage = "set_max_threads (a raise, concurrent with the callers)".to_string();
                            i.stats.concurrent_raises += 1;
                        });
                        vthread::yield_now();
                        sched.set_max_threads(*n as usize);
                    }
                }
            }
            // despawn while the callers of this phase are scheduling work
            for act in phase.root.iter().filter(|a| matches!(a, RootAct::Despawn)) {
                let _ = act;
                for g in 0..case.cfg.gates as usize {
                    w.open_gate(g);
                }
                vthread::yield_now();
                w.with(|i| {
                    i.root_stage = "despawn_threads_if_overloaded (concurrent with the callers)".to_string();
                    i.despawn_in_progress = true;
                    i.stats.concurrent_despawns += 1;
                });
                sched.despawn_threads_if_overloaded();
                // (threads that were being joined counted as alive until here; the ones that exist now are owned by the pool)
                let (live, max) = (rt::live_named(POOL_THREAD_NAME), sched_max(&w));
                w.with(|i| i.despawn_in_progress = false);
                if live > max {
                    w.fail("C17", "despawn-left-too-many", None, None, format!("despawn_threads_if_overloaded returned with {} live pool threads, maximum {}", live, max));
                }
            }
        }
        w.with(|i| i.root_stage = format!("phase {} wait for quiescence", pi));
        rt::wait_quiescent();
        oracle::phase_end(&w, pi, &handles);
        for o in phase.expect_panicked.iter() {
            w.with(|i| i.objs[*o as usize].expect_panicked = true);
        }
    }
    // final stage: every gate is opened, every stream closed; then everything must finish
    w.with(|i| {
        i.final_stage = true;
        i.clock += 1;
        i.final_stage_clock = i.clock;
        i.root_stage = "final: open all gates".to_string();
    });
    let waiters = w.with(|i| std::mem::take(&mut i.baton_waiters));
    for t in waiters {
        rt::unpark_nosched(t);
    }
    for g in 0..case.cfg.gates as usize {
        w.open_gate(g);
    }
    loop {
        // callers that were blocked until now may still create pipes: repeat until no stream is left open.
        // (a pipe whose output stream was dropped gets no further input event: C16 is about exactly that)
        let mut closed_any = false;
        for s in 0..case.cfg.streams as usize {
            let open = w.with(|i| i.streams[s].used && !i.streams[s].closed && !(i.streams[s].is_pipe && i.streams[s].out_dropped));
            if open {
                stream_event(&w, s, None, true);
                closed_any = true;
                if case.cfg.chained_streams {
                    // the next stream ends when the pipe lets go of this one: give that a chance first
                    break;
                }
            }
        }
        w.with(|i| i.root_stage = "final: wait for quiescence".to_string());
        rt::wait_quiescent();
        let more = w.with(|i| i.streams.iter().any(|s| s.used && !s.closed && !(s.is_pipe && s.out_dropped)));
        let _ = closed_any;
        if !more {
            break;
        }
    }
    oracle::final_quiescence(&w, &handles);
    w.with(|i| i.root_released = true);
    // release what the root still holds; each last-owner drop must return and destroy the value
    let panicked: Vec<bool> = w.with(|i| i.objs.iter().map(|o| o.expect_panicked).collect());
    for o in 0..handles.len() {
        if let Some(h) = handles[o].take() {
            w.with(|i| i.root_stage = format!("final: drop o{}", o));
            if panicked[o] {
                dispose_panicked(h);
            } else {
                release_handle(&w, h, o, None);
            }
        }
    }
    w.with(|i| i.root_stage = "final: wait for quiescence after drops".to_string());
    rt::wait_quiescent();
    oracle::after_drops(&w);
    // teardown of the execution-local scheduler
    w.with(|i| i.root_stage = "teardown: despawn".to_string());
    sched.verif_set_max_threads(0);
    w.with(|i| i.cur_max = 0);
    sched.despawn_threads_if_overloaded();
    let live = rt::live_named(POOL_THREAD_NAME);
    if live != 0 {
        w.note("C17", "despawn-left-too-many", None, None, format!("after lowering the maximum to 0, despawn_threads_if_overloaded returned with {} live pool threads", live));
    }
    w.clear_wakers();
    w.with(|i| i.root_stage = "teardown: drop execution-local values".to_string());
    vsched::drop_exec_locals();
    w.with(|i| i.root_stage = "done".to_string());
}

fn sched_max(w: &Arc<World>) -> usize {
    w.with(|i| i.cur_max)
}

pub fn run_case(case: &Case, opts: &RunOpts) -> Outcome {
    let mut case = case.clone();
    let n_ops = case.assign_ids();
    let mut ops: Vec<OpRec> = Vec::with_capacity(n_ops + 8);
    ops.resize(n_ops, OpRec::new(Kind::Desync, 0, 0, None, None));
    fill_op_recs(&case, &mut ops);
    let inner = Inner {
        clock: 0,
        ops,
        objs: (0..case.cfg.objects).map(|_| ObjSt::default()).collect(),
        gates: (0..case.cfg.gates).map(|_| GateSt::default()).collect(),
        streams: (0..case.cfg.streams).map(|_| StreamSt::default()).collect(),
        callers: vec![],
        violations: vec![],
        stats: Stats::default(),
        cur_max: case.cfg.pool as usize,
        pool_zero: case.cfg.pool == 0,
        history: if opts.record_history { Some(vec![]) } else { None },
        baton_waiters: vec![],
        root_stage: String::new(),
        phase: 0,
        final_stage: false,
        final_stage_clock: 0,
        inline_futs: vec![],
        inline_consumers: vec![],
        panic_case: case_has_panic(&case),
        panic_clock: 0,
        despawn_in_progress: false,
        quiet_panic_variant: case_has_panic(&case) && case.phases.len() == 1,
        root_released: false,
    };
    let cfg = rt::Config {
        // (a long backlog needs its share of steps: ~40 per operation for scheduling, running and releasing it)
        max_steps: opts.max_steps + 40 * n_ops as u64,
        unlock_points: case.cfg.unlock_points,
        spurious_at: {
            let mut v: Vec<u64> = case.cfg.spurious.iter().map(|x| *x as u64).collect();
            v.sort();
            v
        },
        capture_backtraces: opts.backtraces,
        stack_size: 256 * 1024,
        os_threads: opts.os_threads,
        verbose: opts.verbose,
    };
    let chooser = make_chooser(&case.sched);
    let w = Arc::new(World { case: Box::new(case), inner: Sh::new(inner) });
    let w2 = w.clone();
    let res = rt::run(cfg, chooser, Box::new(move || root_main(w2)));
    // hang analysis for executions that did not complete
    if res.status == rt::Status::Deadlock {
        oracle::deadlock(&w, &res);
    }
    let out = w.with(|i| Outcome {
        status: res.status.clone(),
        violations: std::mem::take(&mut i.violations),
        stats: i.stats.clone(),
        steps: res.steps,
        trace: res.trace.clone(),
        tasks: res.tasks.clone(),
        history: i.history.take().unwrap_or_default(),
        n_ops: i.ops.len(),
    });
    if std::env::var("DV_DEBUG_LEAK").is_ok() && (res.status != rt::Status::Completed || res.unfinished_tasks != 0) {
        eprintln!("LEAK status={:?} unfinished={} tasks={:?}", res.status, res.unfinished_tasks, res.tasks.iter().filter(|t| t.state != rt::TaskState::Finished).map(|t| (t.name.clone(), t.state.clone())).collect::<Vec<_>>());
    }
    if res.status != rt::Status::Completed || res.unfinished_tasks != 0 {
        // library objects referenced from the shadow state must not be dropped outside the execution
        w.with(|i| {
            for g in i.gates.iter_mut() {
                for wk in g.wakers.drain(..) {
                    std::mem::forget(wk);
                }
                for wk in g.history.drain(..) {
                    std::mem::forget(wk);
                }
            }
            for s in i.streams.iter_mut() {
                if let Some(wk) = s.waker.take() {
                    std::mem::forget(wk);
                }
            }
            // the abandoned tasks keep the shadow state alive for good: give back what is plain data
            i.ops = Vec::new();
            i.callers = Vec::new();
            i.violations = Vec::new();
            i.history = None;
            i.baton_waiters = Vec::new();
        });
        std::mem::forget(w);
    }
    out
}

fn fill_steps(steps: &[Step], phase: usize, parent: OpId, ops: &mut Vec<OpRec>) {
    for s in steps {
        match s {
            Step::NestedDesync { o, body, id } => {
                ops[*id] = OpRec::new(Kind::Desync, *o as usize, phase, None, Some(parent));
                fill_steps(body, phase, *id, ops);
            }
            Step::NestedSync { o, body, id } => {
                ops[*id] = OpRec::new(Kind::Sync, *o as usize, phase, None, Some(parent));
                fill_steps(body, phase, *id, ops);
            }
            Step::NestedFutDesync { o, body, id } | Step::AwaitFutDesync { o, body, id } => {
                ops[*id] = OpRec::new(Kind::FutDesync, *o as usize, phase, None, Some(parent));
                fill_steps(body, phase, *id, ops);
            }
            Step::AwaitFutSync { o, body, id } => {
                ops[*id] = OpRec::new(Kind::FutSync, *o as usize, phase, None, Some(parent));
                fill_steps(body, phase, *id, ops);
            }
            Step::Panic => ops[parent].has_panic = true,
            _ => {}
        }
    }
}

fn fill_op_recs(case: &Case, ops: &mut Vec<OpRec>) {
    for (pi, ph) in case.phases.iter().enumerate() {
        for (ci, c) in ph.callers.iter().enumerate() {
            for op in c.iter() {
                let (kind, o, id, body): (Kind, u8, OpId, &[Step]) = match op {
                    Op::Desync { o, body, id } => (Kind::Desync, *o, *id, body),
                    Op::Sync { o, body, id } => (Kind::Sync, *o, *id, body),
                    Op::TrySync { o, body, id, .. } => (Kind::TrySync, *o, *id, body),
                    Op::FutDesync { o, body, id, .. } => (Kind::FutDesync, *o, *id, body),
                    Op::FutSync { o, body, id, .. } => (Kind::FutSync, *o, *id, body),
                    Op::After { o, body, id, .. } => (Kind::After, *o, *id, body),
                    Op::PipeIn { o, body, id, .. } => (Kind::PipeIn, *o, *id, body),
                    Op::Pipe { o, body, id, .. } => (Kind::Pipe, *o, *id, body),
                    Op::Suspend { o, id, .. } => (Kind::Suspend, *o, *id, &[]),
                    Op::Attempt { o, id, .. } => (Kind::Attempt, *o, *id, &[]),
                    _ => continue,
                };
                ops[id] = OpRec::new(kind, o as usize, pi, Some(ci), None);
                fill_steps(body, pi, id, ops);
            }
        }
    }
}
