#!/bin/bash
# Measures which lines of /repo/src the generated cases of every profile execute (source-based coverage, llvm-cov).
# Not a check: a map of what the generators reach, used to decide where to extend them (DESIGN.md 9.4).
# usage: tools/coverage.sh [cases-per-worker (default 3000)]   -> coverage/report.txt, coverage/missed-lines.txt
set -u
V=$(cd "$(dirname "$0")/.." && pwd -P); W=/var/tmp/dvcov; N=${1:-3000}
B=$(dirname "$(find ~/.rustup/toolchains/nightly-x86_64-unknown-linux-gnu -name llvm-cov | head -1)")
[ -x "$B/llvm-cov" ] || { echo "llvm-tools not found"; exit 2; }
mkdir -p $W/home $W/prof; rm -f $W/prof/*.profraw; cp "$V/known_findings.jsonl" $W/home/
( cd "$V" && RUSTFLAGS="-C instrument-coverage" CARGO_NET_OFFLINE=true cargo +nightly build --release --offline -p dv --target-dir $W/target 2>&1 | tail -1 )
for id in C01 C02 C03 C04 C05 C06 C07 C08 C09 C10 C11 C12 C13 C14 C15 C16 C17; do
  ( cd $W && DV_HOME=$W/home LLVM_PROFILE_FILE=$W/prof/$id-%p.profraw ./target/release/dv check $id --cases $N --workers 4 2>&1 | grep -E "^C[0-9]+ quick|VIOLATION" | cut -c1-120 )
done
$B/llvm-profdata merge -sparse $W/prof/*.profraw -o $W/all.profdata
SRC=$(find /repo/src -name "*.rs")
{ echo "# lines of /repo/src executed by 17 profiles x 4 workers x $N generated cases (tree $(git -C /repo rev-parse --short HEAD))"
  $B/llvm-cov report $W/target/release/dv -instr-profile=$W/all.profdata $SRC 2>/dev/null | awk '{print $1, $8, $9, $10}'; } > "$V/coverage/report.txt"
$B/llvm-cov show $W/target/release/dv -instr-profile=$W/all.profdata $SRC --show-line-counts-or-regions=false 2>/dev/null \
  | awk '/^\/repo/ {f=$0} /^ +[0-9]+\| +0\|/ {print f" "$0}' | cut -c1-200 > "$V/coverage/missed-lines.txt"
tail -3 "$V/coverage/report.txt"; wc -l "$V/coverage/missed-lines.txt"
rm -rf $W/prof
