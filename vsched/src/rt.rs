//! The schedule-controlled runtime core.
//!
//! All tasks of one *execution* are stackful coroutines that run on the OS thread which called
//! [`run`]; exactly one of them runs at a time.  Every visible synchronisation operation (see
//! `sync`, `thread`) calls [`sched_point`] first, which hands control back to the main loop in
//! [`run`]; the main loop asks the [`Chooser`] (the generated schedule) which runnable task
//! continues.  Code between two scheduling points executes atomically.

use corosensei::stack::DefaultStack;
use corosensei::{Coroutine, CoroutineResult, Yielder};
use std::any::{Any, TypeId};
use std::cell::{Cell, RefCell};
use std::mem::ManuallyDrop;
use std::panic::{self, AssertUnwindSafe};
use std::ptr;
use std::sync::Once;

pub type TaskId = usize;

#[derive(Clone, Copy, Debug, PartialEq, Eq)]
pub enum BlockKind {
    Mutex,
    Condvar,
    Park,
    Recv,
    Join,
    Quiescent,
    Forever,
}

#[derive(Clone, Copy, Debug, PartialEq, Eq)]
pub enum TaskState {
    Runnable,
    Blocked(BlockKind, usize),
    Finished,
}

#[derive(Clone, Debug)]
pub struct Config {
    /// maximum number of scheduling decisions before the execution is cut off (inconclusive)
    pub max_steps: u64,
    /// scheduling point before every mutex release (otherwise only for mutexes that have been try_lock'ed)
    pub unlock_points: bool,
    /// global step numbers at which one task blocked in Condvar::wait / park is woken spuriously
    pub spurious_at: Vec<u64>,
    /// capture a backtrace whenever a task blocks or panics (slow; replay only)
    pub capture_backtraces: bool,
    pub stack_size: usize,
    /// run every task on an OS thread of its own (one at a time, handed a baton by the scheduler loop) instead of on a
    /// coroutine: slower, and unfinished tasks are leaked as parked threads, so only for one-shot replays in a throw-away
    /// process. What it buys: `thread_local!` state and anything else tied to the OS thread behaves as it does for real threads.
    pub os_threads: bool,
    pub verbose: bool,
}

impl Default for Config {
    fn default() -> Config {
        Config { max_steps: 50_000, unlock_points: false, spurious_at: vec![], capture_backtraces: false, stack_size: 256 * 1024, os_threads: false, verbose: false }
    }
}

/// Information passed to the chooser at every scheduling decision
pub struct StepInfo<'a> {
    pub step: u64,
    /// number of scheduling decisions each task has been through (indexed by TaskId)
    pub local_steps: &'a [u32],
}

/// The schedule: decides which runnable task continues
pub trait Chooser {
    /// `runnable` is non-empty and sorted by task id; `current` is the index in `runnable` of the task
    /// that was running, if it is still runnable.  Returns an index into `runnable`.
    fn choose(&mut self, runnable: &[TaskId], current: Option<usize>, info: &StepInfo) -> usize;
    /// A non-scheduling non-deterministic choice among `n >= 2` alternatives (target of notify_one)
    fn pick(&mut self, _n: usize) -> usize {
        0
    }
}

#[derive(Clone, Debug, PartialEq, Eq)]
pub enum Status {
    /// the root task returned
    Completed,
    /// no task is runnable and the root is neither finished nor waiting for quiescence
    Deadlock,
    /// step bound reached
    StepBound,
    /// a task called `abort`
    Aborted(String),
    /// the replayed trace could not be followed
    Diverged,
}

#[derive(Clone, Debug)]
pub struct TaskInfo {
    pub id: TaskId,
    pub name: String,
    pub state: TaskState,
    pub blocking_calls: u32,
    pub panic_msg: Option<String>,
    pub blocked_bt: Option<String>,
    pub local_steps: u32,
}

#[derive(Clone, Debug)]
pub struct RunResult {
    pub status: Status,
    pub steps: u64,
    pub tasks: Vec<TaskInfo>,
    /// task chosen at every decision that had more than one candidate
    pub trace: Vec<u8>,
    pub quiescences: u32,
    /// number of tasks that had not finished when the execution ended
    pub unfinished_tasks: usize,
}

type Coro = Coroutine<(), (), (), DefaultStack>;

/// Hand-over between the scheduler loop and a task that runs on its own OS thread
struct Baton {
    m: std::sync::Mutex<(bool, bool)>, // (the task's turn, the task has finished)
    cv: std::sync::Condvar,
}

impl Baton {
    /// scheduler loop: let the task run until it gives the baton back; true if it has finished
    fn run_task(&self) -> bool {
        let mut st = self.m.lock().unwrap();
        st.0 = true;
        self.cv.notify_all();
        while st.0 {
            st = self.cv.wait(st).unwrap();
        }
        st.1
    }
    /// task: give the baton back and wait for the next turn
    fn yield_to_scheduler(&self) {
        let mut st = self.m.lock().unwrap();
        st.0 = false;
        self.cv.notify_all();
        while !st.0 {
            st = self.cv.wait(st).unwrap();
        }
    }
    fn wait_first_turn(&self) {
        let mut st = self.m.lock().unwrap();
        while !st.0 {
            st = self.cv.wait(st).unwrap();
        }
    }
    fn finish(&self) {
        let mut st = self.m.lock().unwrap();
        st.0 = false;
        st.1 = true;
        self.cv.notify_all();
    }
}

struct SendPtr<T>(T);
unsafe impl<T> Send for SendPtr<T> {}

struct Task {
    name: String,
    state: TaskState,
    coro: Option<Coro>,
    baton: Option<std::sync::Arc<Baton>>,
    yielder: *const Yielder<(), ()>,
    park_token: bool,
    panicking: bool,
    panic_msg: Option<String>,
    blocking_calls: u32,
    blocked_bt: Option<String>,
    no_preempt: bool,
    blocks: u32,
}

pub(crate) struct Exec {
    cfg: Config,
    chooser: Box<dyn Chooser>,
    tasks: Vec<Task>,
    local_steps: Vec<u32>,
    current: TaskId,
    in_task: bool,
    steps: u64,
    trace: Vec<u8>,
    abort: Option<Status>,
    quiescences: u32,
    locals: Vec<(TypeId, *mut (dyn Any + 'static))>,
    spawn_hook: Option<Box<dyn FnMut(&str, usize)>>,
    epoch: u64,
}

thread_local! {
    static EXEC: Cell<*mut Exec> = const { Cell::new(ptr::null_mut()) };
    static STACKS: RefCell<Vec<DefaultStack>> = const { RefCell::new(Vec::new()) };
    static EPOCH: Cell<u64> = const { Cell::new(0) };
}

#[inline]
fn exec_ptr() -> *mut Exec {
    EXEC.with(|c| c.get())
}

/// Access the execution. The closure must not call back into anything that uses `with_exec`.
#[inline]
pub(crate) fn with_exec<R>(f: impl FnOnce(&mut Exec) -> R) -> R {
    let p = exec_ptr();
    assert!(!p.is_null(), "vsched: used outside an execution");
    unsafe { f(&mut *p) }
}

/// True when called from inside a task of a running execution
#[inline]
pub fn in_task() -> bool {
    let p = exec_ptr();
    !p.is_null() && unsafe { (*p).in_task }
}

static HOOK: Once = Once::new();

fn install_hook() {
    HOOK.call_once(|| {
        let prev = panic::take_hook();
        panic::set_hook(Box::new(move |info| {
            let p = exec_ptr();
            if !p.is_null() {
                let e = unsafe { &mut *p };
                if e.in_task {
                    let payload = info.payload();
                    let msg = if let Some(b) = payload.downcast_ref::<DropBomb>() {
                        b.msg.clone()
                    } else if let Some(s) = payload.downcast_ref::<&str>() {
                        s.to_string()
                    } else if let Some(s) = payload.downcast_ref::<String>() {
                        s.clone()
                    } else {
                        "<non-string panic payload>".to_string()
                    };
                    let loc = info.location().map(|l| format!("{}:{}", l.file(), l.line())).unwrap_or_default();
                    let verbose = e.cfg.verbose;
                    let bt = if e.cfg.capture_backtraces { Some(filtered_backtrace()) } else { None };
                    let cur = e.current;
                    let t = &mut e.tasks[cur];
                    t.panicking = true;
                    if t.panic_msg.is_none() {
                        t.panic_msg = Some(match &bt {
                            Some(bt) => format!("{} @ {}\n{}", msg, loc, bt),
                            None => format!("{} @ {}", msg, loc),
                        });
                    }
                    if verbose {
                        eprintln!("[vsched] task {} '{}' panicked: {} @ {}", cur, t.name, msg, loc);
                    }
                    return;
                }
            }
            prev(info)
        }));
    });
}

fn filtered_backtrace() -> String {
    let bt = std::backtrace::Backtrace::force_capture().to_string();
    // keep the function-name lines that mention the library or the harness
    let mut out = String::new();
    let mut keep_next_loc = false;
    for line in bt.lines() {
        let l = line.trim_start();
        if keep_next_loc && l.starts_with("at ") {
            out.push_str("      ");
            out.push_str(l);
            out.push('\n');
            keep_next_loc = false;
            continue;
        }
        keep_next_loc = false;
        if let Some(pos) = l.find(": ") {
            let name = &l[pos + 2..];
            if (name.contains("desync::") || name.starts_with("dv::") || name.contains(" dv::") || name.contains("<dv::"))
                && !name.contains("vsched::")
            {
                out.push_str("    ");
                out.push_str(name);
                out.push('\n');
                keep_next_loc = true;
            }
        }
    }
    out
}

fn take_stack(size: usize) -> DefaultStack {
    STACKS.with(|s| s.borrow_mut().pop()).unwrap_or_else(|| DefaultStack::new(size).expect("coroutine stack"))
}

fn give_stack(stack: DefaultStack) {
    STACKS.with(|s| {
        let mut s = s.borrow_mut();
        if s.len() < 64 {
            s.push(stack);
        }
    });
}

/// Creates a task; returns its id. The closure must not unwind.
pub(crate) fn spawn_task(name: String, f: Box<dyn FnOnce() + 'static>) -> TaskId {
    if with_exec(|e| e.cfg.os_threads) {
        return spawn_task_os(name, f);
    }
    let size = with_exec(|e| e.cfg.stack_size);
    let stack = take_stack(size);
    let tid = with_exec(|e| e.tasks.len());
    // never-started closures are leaked, not dropped: dropping could run library destructors outside the execution
    let f = ManuallyDrop::new(f);
    let coro: Coro = Coroutine::with_stack(stack, move |y: &Yielder<(), ()>, ()| {
        with_exec(|e| e.tasks[tid].yielder = y as *const _);
        let f = ManuallyDrop::into_inner(f);
        let r = panic::catch_unwind(AssertUnwindSafe(f));
        if r.is_err() {
            with_exec(|e| e.tasks[tid].panicking = false);
        }
        // a task's end is visible (join, is_finished): scheduling point before it
        sched_point();
        with_exec(|e| {
            e.tasks[tid].state = TaskState::Finished;
            e.tasks[tid].panicking = false;
            for t in e.tasks.iter_mut() {
                if t.state == TaskState::Blocked(BlockKind::Join, tid) {
                    t.state = TaskState::Runnable;
                }
            }
        });
    });
    with_exec(|e| {
        e.tasks.push(Task {
            name: name.clone(),
            state: TaskState::Runnable,
            coro: Some(coro),
            baton: None,
            yielder: ptr::null(),
            park_token: false,
            panicking: false,
            panic_msg: None,
            blocking_calls: 0,
            blocked_bt: None,
            no_preempt: false,
            blocks: 0,
        });
        e.local_steps.push(0);
    });
    // spawn hook (harness oracle, e.g. pool size)
    let hook = with_exec(|e| e.spawn_hook.take());
    if let Some(mut hook) = hook {
        let live = with_exec(|e| e.tasks.iter().filter(|t| t.name == name && t.state != TaskState::Finished).count());
        hook(&name, live);
        with_exec(|e| {
            if e.spawn_hook.is_none() {
                e.spawn_hook = Some(hook)
            }
        });
    }
    tid
}

/// `spawn_task` for `Config::os_threads`: the task gets an OS thread of its own, which only ever runs while it holds the baton
fn spawn_task_os(name: String, f: Box<dyn FnOnce() + 'static>) -> TaskId {
    let tid = with_exec(|e| e.tasks.len());
    let baton = std::sync::Arc::new(Baton { m: std::sync::Mutex::new((false, false)), cv: std::sync::Condvar::new() });
    let b2 = baton.clone();
    let exec = SendPtr(exec_ptr() as usize);
    let f = SendPtr(ManuallyDrop::new(f));
    let stack = with_exec(|e| e.cfg.stack_size).max(2 * 1024 * 1024);
    std::thread::Builder::new()
        .name(format!("vsched task {}", tid))
        .stack_size(stack)
        .spawn(move || {
            let exec = exec;
            let f = f;
            EXEC.with(|c| c.set(exec.0 as *mut Exec));
            b2.wait_first_turn();
            let f = ManuallyDrop::into_inner(f.0);
            let r = panic::catch_unwind(AssertUnwindSafe(f));
            if r.is_err() {
                with_exec(|e| e.tasks[tid].panicking = false);
            }
            sched_point();
            with_exec(|e| {
                e.tasks[tid].state = TaskState::Finished;
                e.tasks[tid].panicking = false;
                for t in e.tasks.iter_mut() {
                    if t.state == TaskState::Blocked(BlockKind::Join, tid) {
                        t.state = TaskState::Runnable;
                    }
                }
            });
            b2.finish();
        })
        .expect("vsched: cannot create an OS thread for a task");
    with_exec(|e| {
        e.tasks.push(Task {
            name: name.clone(),
            state: TaskState::Runnable,
            coro: None,
            baton: Some(baton),
            yielder: ptr::null(),
            park_token: false,
            panicking: false,
            panic_msg: None,
            blocking_calls: 0,
            blocked_bt: None,
            no_preempt: false,
            blocks: 0,
        });
        e.local_steps.push(0);
    });
    let hook = with_exec(|e| e.spawn_hook.take());
    if let Some(mut hook) = hook {
        let live = with_exec(|e| e.tasks.iter().filter(|t| t.name == name && t.state != TaskState::Finished).count());
        hook(&name, live);
        with_exec(|e| {
            if e.spawn_hook.is_none() {
                e.spawn_hook = Some(hook)
            }
        });
    }
    tid
}

/// Runs one execution to its end and reports what happened.
pub fn run(cfg: Config, chooser: Box<dyn Chooser>, root: Box<dyn FnOnce() + 'static>) -> RunResult {
    install_hook();
    assert!(exec_ptr().is_null(), "vsched: nested executions are not supported");
    let epoch = EPOCH.with(|c| {
        c.set(c.get() + 1);
        c.get()
    });
    let mut exec = Exec {
        cfg,
        chooser,
        tasks: Vec::with_capacity(16),
        local_steps: Vec::with_capacity(16),
        current: 0,
        in_task: false,
        steps: 0,
        trace: Vec::with_capacity(256),
        abort: None,
        quiescences: 0,
        locals: Vec::new(),
        spawn_hook: None,
        epoch,
    };
    let p: *mut Exec = &mut exec;
    EXEC.with(|c| c.set(p));
    // the root must not unwind out of its coroutine
    let root_wrapped: Box<dyn FnOnce()> = Box::new(move || {
        let r = panic::catch_unwind(AssertUnwindSafe(root));
        if r.is_err() {
            let msg = with_exec(|e| {
                e.tasks[0].panicking = false;
                e.tasks[0].panic_msg.clone().unwrap_or_default()
            });
            abort(format!("root task panicked: {}", msg));
        }
    });
    spawn_task("root".to_string(), root_wrapped);

    let mut runnable: Vec<TaskId> = Vec::with_capacity(16);
    let mut spurious_idx = 0usize;
    let status = loop {
        let e = unsafe { &mut *p };
        if let Some(s) = e.abort.take() {
            break s;
        }
        if e.tasks[0].state == TaskState::Finished {
            break Status::Completed;
        }
        // injected spurious wake-ups
        while spurious_idx < e.cfg.spurious_at.len() && e.cfg.spurious_at[spurious_idx] <= e.steps {
            spurious_idx += 1;
            if let Some(t) = e.tasks.iter_mut().find(|t| matches!(t.state, TaskState::Blocked(BlockKind::Condvar, _) | TaskState::Blocked(BlockKind::Park, _))) {
                t.state = TaskState::Runnable;
            }
        }
        runnable.clear();
        for (i, t) in e.tasks.iter().enumerate() {
            if t.state == TaskState::Runnable {
                runnable.push(i);
            }
        }
        if runnable.is_empty() {
            if let TaskState::Blocked(BlockKind::Quiescent, _) = e.tasks[0].state {
                e.tasks[0].state = TaskState::Runnable;
                e.quiescences += 1;
                continue;
            }
            break Status::Deadlock;
        }
        if e.steps >= e.cfg.max_steps {
            break Status::StepBound;
        }
        let idx = if runnable.len() == 1 {
            0
        } else {
            let cur = runnable.iter().position(|&t| t == e.current);
            let info = StepInfo { step: e.steps, local_steps: &e.local_steps };
            let i = e.chooser.choose(&runnable, cur, &info);
            if i >= runnable.len() {
                break Status::Diverged;
            }
            e.trace.push(runnable[i] as u8);
            i
        };
        let tid = runnable[idx];
        e.steps += 1;
        e.local_steps[tid] += 1;
        e.current = tid;
        if let Some(baton) = e.tasks[tid].baton.clone() {
            e.in_task = true;
            baton.run_task();
            let e = unsafe { &mut *p };
            e.in_task = false;
            continue;
        }
        let mut coro = e.tasks[tid].coro.take().expect("runnable task has a coroutine");
        e.in_task = true;
        let r = coro.resume(());
        let e = unsafe { &mut *p };
        e.in_task = false;
        match r {
            CoroutineResult::Yield(()) => e.tasks[tid].coro = Some(coro),
            CoroutineResult::Return(()) => give_stack(coro.into_stack()),
        }
    };

    // tear down: abandon whatever is still suspended without unwinding it
    let e = unsafe { &mut *p };
    let mut unfinished = 0;
    for t in e.tasks.iter_mut() {
        if t.state != TaskState::Finished {
            unfinished += 1;
        }
        if let Some(mut c) = t.coro.take() {
            if !c.done() {
                // abandons the stack contents (and the initial closure of a never-started task) without running destructors
                unsafe { c.force_reset() };
            }
            give_stack(c.into_stack());
        }
    }
    // execution-local values that were not dropped inside the execution are leaked
    e.locals.clear();
    e.spawn_hook = None;
    let tasks = e
        .tasks
        .iter()
        .enumerate()
        .map(|(i, t)| TaskInfo {
            id: i,
            name: t.name.clone(),
            state: t.state,
            blocking_calls: t.blocking_calls,
            panic_msg: t.panic_msg.clone(),
            blocked_bt: t.blocked_bt.clone(),
            local_steps: e.local_steps[i],
        })
        .collect();
    let res = RunResult { status, steps: e.steps, tasks, trace: std::mem::take(&mut e.trace), quiescences: e.quiescences, unfinished_tasks: unfinished };
    EXEC.with(|c| c.set(ptr::null_mut()));
    res
}

fn switch_out() {
    if let Some(baton) = with_exec(|e| e.tasks[e.current].baton.clone()) {
        baton.yield_to_scheduler();
        return;
    }
    let y = with_exec(|e| e.tasks[e.current].yielder);
    debug_assert!(!y.is_null());
    unsafe { (*y).suspend(()) };
}

/// A scheduling point: the schedule decides which runnable task continues.
#[inline]
pub fn sched_point() {
    if in_task() {
        let skip = with_exec(|e| e.tasks[e.current].no_preempt);
        if !skip {
            switch_out();
        }
    }
}

/// Runs `f` without pre-emption: scheduling points of the current task are skipped (it can still block).
/// Harness use: makes "observe, call, observe" sequences atomic.
pub fn atomic<R>(f: impl FnOnce() -> R) -> R {
    let prev = with_exec(|e| {
        let cur = e.current;
        std::mem::replace(&mut e.tasks[cur].no_preempt, true)
    });
    let r = f();
    with_exec(|e| {
        let cur = e.current;
        e.tasks[cur].no_preempt = prev;
    });
    r
}

/// Blocks the current task until something makes it runnable again.
pub(crate) fn block(kind: BlockKind, key: usize) {
    with_exec(|e| {
        let bt = if e.cfg.capture_backtraces { Some(filtered_backtrace()) } else { None };
        let cur = e.current;
        let t = &mut e.tasks[cur];
        t.state = TaskState::Blocked(kind, key);
        t.blocked_bt = bt;
        t.blocks += 1;
        // operations that can block indefinitely (used by "never blocks" oracles); mutexes are held briefly
        if matches!(kind, BlockKind::Condvar | BlockKind::Park | BlockKind::Recv | BlockKind::Join) {
            t.blocking_calls += 1;
        }
    });
    switch_out();
    with_exec(|e| {
        let cur = e.current;
        e.tasks[cur].blocked_bt = None;
    });
}

pub(crate) fn count_blocking_call() {
    // counted in `block` (only when the task really blocks)
}

/// Makes every task blocked on (kind, key) runnable. Returns how many.
pub(crate) fn wake_all(kind: BlockKind, key: usize) -> usize {
    if exec_ptr().is_null() {
        return 0;
    }
    with_exec(|e| {
        let mut n = 0;
        for t in e.tasks.iter_mut() {
            if t.state == TaskState::Blocked(kind, key) {
                t.state = TaskState::Runnable;
                n += 1;
            }
        }
        n
    })
}

/// Makes one task blocked on (kind, key) runnable, chosen by the schedule.
pub(crate) fn wake_one(kind: BlockKind, key: usize) -> bool {
    if exec_ptr().is_null() {
        return false;
    }
    with_exec(|e| {
        let waiters: Vec<usize> = e.tasks.iter().enumerate().filter(|(_, t)| t.state == TaskState::Blocked(kind, key)).map(|(i, _)| i).collect();
        if waiters.is_empty() {
            return false;
        }
        let i = if waiters.len() == 1 {
            0
        } else {
            let i = e.chooser.pick(waiters.len()).min(waiters.len() - 1);
            e.trace.push(0x80 | i as u8);
            i
        };
        e.tasks[waiters[i]].state = TaskState::Runnable;
        true
    })
}

pub(crate) fn unlock_points() -> bool {
    with_exec(|e| e.cfg.unlock_points)
}

pub fn current() -> TaskId {
    with_exec(|e| e.current)
}

pub(crate) fn epoch() -> u64 {
    with_exec(|e| e.epoch)
}

pub(crate) fn task_finished(tid: TaskId) -> bool {
    with_exec(|e| e.tasks[tid].state == TaskState::Finished)
}

pub(crate) fn park_current() {
    let token = with_exec(|e| {
        let cur = e.current;
        std::mem::replace(&mut e.tasks[cur].park_token, false)
    });
    if !token {
        let me = current();
        block(BlockKind::Park, me);
    }
}

pub(crate) fn unpark(tid: TaskId, epoch: u64) {
    if exec_ptr().is_null() {
        return;
    }
    with_exec(|e| {
        if e.epoch != epoch || tid >= e.tasks.len() {
            return;
        }
        let t = &mut e.tasks[tid];
        match t.state {
            TaskState::Blocked(BlockKind::Park, _) => t.state = TaskState::Runnable,
            TaskState::Finished => {}
            _ => t.park_token = true,
        }
    })
}

/// A panic payload whose destructor panics in turn when a task with the given name drops it while it is not unwinding:
/// what happens to `let _ = catch_unwind(..)` when the caught value has a destructor that fails. (Raised with `panic_any`;
/// the panic hook reports `msg` for it.) Whoever else drops it — the harness, a task that is unwinding — is unaffected.
pub struct DropBomb {
    pub msg: String,
    pub on_task_named: &'static str,
}

impl Drop for DropBomb {
    fn drop(&mut self) {
        if in_task() && !panicking() && with_exec(|e| e.tasks[e.current].name == self.on_task_named) {
            panic!("{} (destructor of the panic payload)", self.msg);
        }
    }
}

/// Per-task replacement for `std::thread::panicking()`
pub fn panicking() -> bool {
    if in_task() {
        with_exec(|e| e.tasks[e.current].panicking)
    } else {
        std::thread::panicking()
    }
}

/// `std::panic::catch_unwind` that also maintains the per-task panicking flag.
pub fn catch_unwind<R>(f: impl FnOnce() -> R) -> Result<R, String> {
    match panic::catch_unwind(AssertUnwindSafe(f)) {
        Ok(r) => Ok(r),
        Err(_) => {
            let msg = if in_task() {
                with_exec(|e| {
                    let cur = e.current;
                    e.tasks[cur].panicking = false;
                    e.tasks[cur].panic_msg.take().unwrap_or_default()
                })
            } else {
                String::new()
            };
            Err(msg)
        }
    }
}

/// Clears the panicking flag of the current task (used by thread wrappers after catching a panic)
pub(crate) fn clear_panicking() -> Option<String> {
    with_exec(|e| {
        let cur = e.current;
        e.tasks[cur].panicking = false;
        e.tasks[cur].panic_msg.clone()
    })
}

/// Clears the panicking flag of the current task after a panic has been caught inside it (see `vsched::panic::catch_unwind`)
pub fn clear_panicking_public() {
    let _ = clear_panicking();
}

/// Root only: blocks until no other task is runnable.
pub fn wait_quiescent() {
    assert_eq!(current(), 0, "wait_quiescent is for the root task");
    block(BlockKind::Quiescent, 0);
}

/// Ends the execution immediately (used when an oracle has failed). Never returns.
pub fn abort(reason: String) -> ! {
    with_exec(|e| {
        if e.abort.is_none() {
            e.abort = Some(Status::Aborted(reason))
        }
    });
    loop {
        block(BlockKind::Forever, 0);
    }
}

/// Makes a parked task runnable (or leaves it a token) without a scheduling point. Harness use.
pub fn unpark_nosched(tid: TaskId) {
    let ep = epoch();
    unpark(tid, ep);
}

pub fn steps() -> u64 {
    with_exec(|e| e.steps)
}

/// Number of times the task actually blocked (on anything, including mutexes)
pub fn block_count(tid: TaskId) -> u32 {
    with_exec(|e| e.tasks[tid].blocks)
}

pub fn blocking_calls(tid: TaskId) -> u32 {
    with_exec(|e| e.tasks[tid].blocking_calls)
}

pub fn task_state(tid: TaskId) -> TaskState {
    with_exec(|e| e.tasks[tid].state)
}

pub fn task_panic_msg(tid: TaskId) -> Option<String> {
    with_exec(|e| e.tasks[tid].panic_msg.clone())
}

/// Number of unfinished tasks with this name
pub fn live_named(name: &str) -> usize {
    with_exec(|e| e.tasks.iter().filter(|t| t.name == name && t.state != TaskState::Finished).count())
}

/// Number of tasks ever created with this name
pub fn created_named(name: &str) -> usize {
    with_exec(|e| e.tasks.iter().filter(|t| t.name == name).count())
}

pub fn snapshot() -> Vec<TaskInfo> {
    with_exec(|e| {
        e.tasks
            .iter()
            .enumerate()
            .map(|(i, t)| TaskInfo {
                id: i,
                name: t.name.clone(),
                state: t.state,
                blocking_calls: t.blocking_calls,
                panic_msg: t.panic_msg.clone(),
                blocked_bt: t.blocked_bt.clone(),
                local_steps: e.local_steps[i],
            })
            .collect()
    })
}

/// Called with (task name, live tasks of that name including the new one) whenever a task is created
pub fn set_spawn_hook(hook: Box<dyn FnMut(&str, usize)>) {
    with_exec(|e| e.spawn_hook = Some(hook));
}

/// A value that exists once per execution (replacement for process-wide statics in the tested code).
pub fn exec_local<'a, T: Any>(init: impl FnOnce() -> T) -> &'a T {
    let tid = TypeId::of::<T>();
    let found = with_exec(|e| e.locals.iter().find(|(t, _)| *t == tid).map(|(_, p)| *p));
    let p = match found {
        Some(p) => p,
        None => {
            let v: Box<dyn Any> = Box::new(init());
            let p = Box::into_raw(v);
            with_exec(|e| e.locals.push((tid, p)));
            p
        }
    };
    unsafe { (*p).downcast_ref::<T>().expect("exec_local type") }
}

/// Drops the execution-local values in reverse order of creation (call from the root task during teardown).
pub fn drop_exec_locals() {
    loop {
        let p = with_exec(|e| e.locals.pop());
        match p {
            Some((_, p)) => drop(unsafe { Box::from_raw(p) }),
            None => break,
        }
    }
}
