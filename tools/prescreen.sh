#!/bin/bash
# usage: tools/prescreen.sh <PROP> <n> [more props to run]  -- applies /tmp/mut2/<PROP>/out/mut<n>/patch.diff in that scratch worktree and
# runs the quick check(s) of a scratch harness build against it (never touches /repo). See tools/scratch_dv.sh.
P=$1; n=$2; shift 2
W=${MUTROOT:-/tmp/mut2}/$P
(cd $W && git checkout -q -- src && git checkout -q --detach ${BASE:-29b7b0d} && git apply out/mut$n/patch.diff) || { echo "$P:$n apply failed"; exit 1; }
echo "== $P:$n $(jq -r .title $W/out/mut$n/meta.json | cut -c1-160)"
"$(dirname "$0")/scratch_dv.sh" $W ${DVX:-/tmp/dvx}/$P $P "$@"
(cd $W && git checkout -q -- src)
