use desync::Desync;
use std::sync::Arc;
use vsched::rt::{self, Chooser, Config, StepInfo, TaskId};

struct RoundRobin(usize);
impl Chooser for RoundRobin {
    fn choose(&mut self, runnable: &[TaskId], _current: Option<usize>, _info: &StepInfo) -> usize {
        self.0 = self.0.wrapping_mul(6364136223846793005).wrapping_add(1442695040888963407);
        (self.0 >> 33) % runnable.len()
    }
}

fn main() {
    let t0 = std::time::Instant::now();
    let n = 20000;
    let mut steps = 0;
    for i in 0..n {
        let r = rt::run(Config::default(), Box::new(RoundRobin(i)), Box::new(move || {
            desync::scheduler::scheduler().verif_set_max_threads(0);
            let d = Arc::new(Desync::new(0u32));
            let d2 = d.clone();
            let h = vsched::thread::spawn(move || {
                
                d2.sync(|v| *v += 10);
            });
            
            let v = d.sync(|v| *v);
            h.join().unwrap();
            let v2 = d.sync(|v| *v);
            assert!(v2 == 10, "v={} v2={}", v, v2);
            drop(d);
            desync::scheduler::scheduler().verif_set_max_threads(0);
            desync::scheduler::scheduler().despawn_threads_if_overloaded();
            vsched::drop_exec_locals();
        }));
        steps += r.steps;
        if r.status != rt::Status::Completed || r.unfinished_tasks != 0 {
            println!("iter {} status {:?} steps {} unfinished {}", i, r.status, r.steps, r.unfinished_tasks);
            for t in &r.tasks { println!("  {:?}", t); }
            break;
        }
    }
    println!("{} execs, {} steps, {:?}", n, steps, t0.elapsed());
}
