//! Hand-written decoder from raw bytes to a (raw) case, for the coverage-guided fuzz target.
//! Mirrors the proptest grammar of `gen.rs` (same `Profile` weights); when the input is used up it yields
//! zeros, i.e. the first alternative / the shortest list, so short inputs decode to small cases.
//! (`derive_arbitrary` is not available offline, and proptest's pass-through RNG halves the remaining
//! entropy on every fork and then spins on zeros, so neither can be used here.)

use crate::case::*;
use crate::gen::{OpW, Profile, Shape, StepW};

pub struct Src<'a> {
    d: &'a [u8],
    i: usize,
}

impl<'a> Src<'a> {
    pub fn new(d: &'a [u8]) -> Src<'a> {
        Src { d, i: 0 }
    }
    pub fn u8(&mut self) -> u8 {
        let v = self.d.get(self.i).copied().unwrap_or(0);
        self.i += 1;
        v
    }
    pub fn u16(&mut self) -> u16 {
        (self.u8() as u16) << 8 | self.u8() as u16
    }
    /// inclusive range
    pub fn range(&mut self, lo: usize, hi: usize) -> usize {
        if hi <= lo {
            return lo;
        }
        lo + ((self.u8() as usize * (hi - lo + 1)) >> 8)
    }
    pub fn pct(&mut self, p: u32) -> bool {
        ((self.u8() as u32 * 100) >> 8) < p
    }
    pub fn weighted(&mut self, ws: &[u32]) -> usize {
        let total: u32 = ws.iter().sum();
        if total == 0 {
            return 0;
        }
        let mut r = ((self.u16() as u64 * total as u64) >> 16) as u32;
        for (i, w) in ws.iter().enumerate() {
            if r < *w {
                return i;
            }
            r -= *w;
        }
        ws.len() - 1
    }
    pub fn rest(&mut self, max: usize) -> Vec<u8> {
        let n = (self.d.len().saturating_sub(self.i)).min(max);
        let v = self.d[self.i.min(self.d.len())..self.i.min(self.d.len()) + n].to_vec();
        self.i += n;
        v
    }
}

fn steps(s: &mut Src, w: &StepW, len: (usize, usize), in_future: bool, depth: usize) -> Vec<Step> {
    let n = s.range(len.0, len.1);
    let mut out = vec![];
    for _ in 0..n {
        let nested = if depth == 0 { 0 } else { 1 };
        let ws = [
            w.touch.max(1),
            w.yield_,
            w.opengate,
            if depth > 0 { w.release } else { 0 },
            if depth > 0 { w.panic } else { 0 },
            w.nested_desync * nested,
            w.nested_sync * nested,
            w.nested_futdesync * nested,
            if in_future { w.awaitgate } else { w.blockongate },
            if in_future { w.awaitfutsync * nested } else { 0 },
            if in_future { w.awaitfutdesync * nested } else { 0 },
            if in_future { w.selfwake } else { 0 },
        ];
        let k = s.weighted(&ws);
        let d = depth.saturating_sub(1);
        out.push(match k {
            0 => Step::Touch,
            1 => Step::Yield,
            2 => Step::OpenGate { g: s.u8() },
            3 => Step::Release { o: s.u8() },
            4 => Step::Panic,
            5 => Step::NestedDesync { o: s.u8(), body: steps(s, w, (0, 2), false, d), id: 0 },
            6 => Step::NestedSync { o: s.u8(), body: steps(s, w, (0, 2), false, d), id: 0 },
            7 => Step::NestedFutDesync { o: s.u8(), body: steps(s, w, (0, 2), true, d), id: 0 },
            8 => {
                if in_future {
                    Step::AwaitGate { g: s.u8() }
                } else {
                    Step::BlockOnGate { g: s.u8() }
                }
            }
            9 => Step::AwaitFutSync { o: s.u8(), body: steps(s, w, (0, 2), true, d), id: 0 },
            10 => Step::AwaitFutDesync { o: s.u8(), body: steps(s, w, (0, 2), true, d), id: 0 },
            _ => Step::SelfWake,
        });
    }
    out
}

/// Mirror of `gen::lifecycle`: one future taken through its life by its owner (same raw slot, object and gate throughout)
fn lifecycle(s: &mut Src, p: &Profile) -> Vec<Op> {
    let w = &p.opw;
    let (o, slot, g) = (s.u8(), s.u8(), s.u8());
    let mut out = vec![];
    let backlog = match s.weighted(&[27, 1, 1, 1]) {
        0 => 0,
        1 => s.range(33, 36),
        2 => s.range(65, 68),
        _ => s.range(130, 133),
    };
    for _ in 0..backlog {
        out.push(Op::Desync { o, body: vec![], id: 0 });
    }
    let mut body = steps(s, &p.stepw, (0, 2), true, 0);
    body.push(Step::AwaitGate { g });
    body.extend(steps(s, &p.stepw, (0, 2), true, 0));
    out.push(match s.weighted(&[w.futdesync.max(1), w.futsync, w.after]) {
        0 => Op::FutDesync { o, body, slot, id: 0 },
        1 => Op::FutSync { o, body, slot, id: 0 },
        _ => Op::After { o, g, body: steps(s, &p.stepw, (0, 1), false, 0), slot, id: 0 },
    });
    if p.lifecycle_release_pct > 0 && s.pct(p.lifecycle_release_pct) {
        out.push(Op::Release { o });
    }
    for _ in 0..s.range(0, 4) {
        out.push(match s.weighted(&[3, 3, 2, 2, 1]) {
            0 => Op::PollOnce { slot },
            1 => Op::OpenGate { g },
            2 => Op::Yield,
            3 => Op::Desync { o, body: steps(s, &p.stepw, (0, 1), false, 0), id: 0 },
            _ => Op::Rewake { g },
        });
    }
    match s.weighted(&[4, 3, 2, 1, 1, 2]) {
        0 => out.push(Op::Await { slot }),
        1 => out.push(Op::SyncWait { slot }),
        2 => out.push(Op::DropFut { slot }),
        3 => out.push(Op::Detach { slot }),
        4 => {}
        _ => {
            let slot2 = slot.wrapping_add(64);
            out.push(Op::FutDesync { o, body: vec![Step::Touch], slot: slot2, id: 0 });
            out.push(Op::AwaitJoin { a: slot, b: slot2 });
        }
    }
    out
}

fn op(s: &mut Src, p: &Profile, w: &OpW) -> Op {
    let ws = [
        w.desync, w.sync, w.trysync, w.futdesync, w.futsync, w.after, w.await_, w.syncwait, w.pollonce, w.dropfut, w.detach, w.release, w.opengate, w.rewake, w.waitfor, w.yield_, w.suspend, w.awaitsuspend, w.resume, w.dropresumer, w.pipein, w.pipe,
        w.consume, w.droppipe, w.awaitinline, w.consumeinline, w.setdepth, w.awaitjoin,
    ];
    let k = s.weighted(&ws);
    let pipe_body = |s: &mut Src| -> Vec<Step> {
        let n = s.range(0, 2);
        (0..n)
            .map(|_| match s.weighted(&[4, 3, 2, 1]) {
                0 => Step::Touch,
                1 => Step::Yield,
                2 => Step::AwaitGate { g: s.u8() },
                _ => Step::SelfWake,
            })
            .collect()
    };
    match k {
        0 => Op::Desync { o: s.u8(), body: steps(s, &p.stepw, p.body, false, 2), id: 0 },
        1 => Op::Sync { o: s.u8(), body: steps(s, &p.stepw, p.body, false, 2), id: 0 },
        2 => Op::TrySync { o: s.u8(), body: steps(s, &p.stepw, p.body, false, 2), probe: s.u8() & 1 == 1, id: 0 },
        3 => Op::FutDesync { o: s.u8(), body: steps(s, &p.stepw, p.body, true, 2), slot: s.u8(), id: 0 },
        4 => Op::FutSync { o: s.u8(), body: steps(s, &p.stepw, p.body, true, 2), slot: s.u8(), id: 0 },
        5 => Op::After { o: s.u8(), g: s.u8(), body: steps(s, &p.stepw, p.body, false, 2), slot: s.u8(), id: 0 },
        6 => Op::Await { slot: s.u8() },
        7 => Op::SyncWait { slot: s.u8() },
        8 => Op::PollOnce { slot: s.u8() },
        9 => Op::DropFut { slot: s.u8() },
        10 => Op::Detach { slot: s.u8() },
        11 => Op::Release { o: s.u8() },
        12 => Op::OpenGate { g: s.u8() },
        13 => Op::Rewake { g: s.u8() },
        14 => Op::WaitFor { caller: s.u8(), idx: s.u8(), ev: if s.u8() & 1 == 1 { Ev::End } else { Ev::Ret } },
        15 => Op::Yield,
        16 => Op::Suspend { o: s.u8(), slot: s.u8(), id: 0 },
        17 => Op::AwaitSuspend { slot: s.u8() },
        18 => Op::Resume { slot: s.u8() },
        19 => Op::DropResumer { slot: s.u8() },
        20 => Op::PipeIn { o: s.u8(), s: s.u8(), body: pipe_body(s), id: 0 },
        21 => Op::Pipe { o: s.u8(), s: s.u8(), depth: s.u8(), body: pipe_body(s), slot: s.u8(), id: 0 },
        22 => Op::Consume { slot: s.u8(), k: s.u8() },
        23 => Op::DropPipe { slot: s.u8() },
        24 => Op::AwaitInline { slot: s.u8() },
        25 => Op::ConsumeInline { slot: s.u8(), drop_on_wake: s.pct(40) },
        26 => Op::SetDepth { slot: s.u8(), depth: s.u8() },
        _ => Op::AwaitJoin { a: s.u8(), b: s.u8() },
    }
}

fn sched(s: &mut Src, max_bytes: usize) -> Sched {
    match s.weighted(&[4, 3, 3]) {
        0 => {
            let stay = [0u8, 64, 128, 192, 224][s.range(0, 4)];
            let tail = if s.u8() & 1 == 1 { Tail::RoundRobin } else { Tail::Stay };
            // the walk consumes whatever is left of the input: appending bytes extends the explicit schedule
            Sched::Walk { stay, tail, bytes: s.rest(max_bytes) }
        }
        1 => {
            let n = s.range(0, 10);
            let prio = (0..n).map(|_| s.u8()).collect();
            let k = s.range(0, 6);
            let changes = (0..k).map(|_| (s.range(0, 9) as u8, s.range(0, 71) as u16, s.range(0, 39) as u8)).collect();
            Sched::Pct { prio, changes }
        }
        _ => {
            let k = s.range(0, 6);
            let points = (0..k).map(|_| (s.range(0, 9) as u8, s.range(0, 71) as u16, s.u8())).collect();
            Sched::Delay { points, rr: s.u8() & 1 == 1 }
        }
    }
}

/// Decodes a raw case for a profile with a plain / spliced shape. Returns None for the multi-phase shapes
/// (C10, C15, C17), which the fuzz target drives through the proptest strategies with a hashed seed instead.
pub fn case_from_bytes(p: &Profile, data: &[u8]) -> Option<Case> {
    if matches!(p.shape, Shape::Gated | Shape::Panic | Shape::PoolChange) {
        return None;
    }
    if false {
        return None;
    }
    let mut s = Src::new(data);
    let s = &mut s;
    let cfg = Cfg {
        pool: s.range(p.pool.0 as usize, p.pool.1 as usize) as u8,
        objects: s.range(p.objects.0 as usize, p.objects.1 as usize) as u8,
        gates: s.range(p.gates.0 as usize, p.gates.1 as usize) as u8,
        streams: s.range(p.streams.0 as usize, p.streams.1 as usize) as u8,
        level: if s.pct(p.queue_level_pct) { Level::Queue } else { Level::Desync },
        unlock_points: s.pct(p.unlock_points_pct),
        spurious: if s.pct(p.spurious_pct) { (0..s.range(1, 3)).map(|_| (s.u16() % 400)).collect() } else { vec![] },
        pre_open: if s.pct(p.pre_open_pct) { (0..s.range(1, 2)).map(|_| s.u8()).collect() } else { vec![] },
        root_holds: s.pct(p.root_holds_pct),
        double_wake: s.pct(p.double_wake_pct),
        gate_keep_all: s.pct(40),
        stream_always_register: s.pct(50),
        keep_going_after_early_destroy: p.keep_going_after_early_destroy,
        despawn_without_quiescence: false,
        unwinding_drops: s.pct(15),
        consumer_probe_polls: s.pct(50),
        chained_streams: s.pct(40),
        stream_self_wakes: if s.pct(30) { s.range(1, 2) as u8 } else { 0 },
        guard_syncs: s.pct(15),
        stream_wakes_on_drop: s.pct(30),
        payload_bomb: false,
            unwinding_attempts: false,
    };
    let ncallers = s.range(p.callers.0, p.callers.1);
    let mut callers = vec![];
    let lifecycles = p.lifecycle_pct > 0 && p.opw.pollonce > 0 && p.opw.futdesync + p.opw.futsync + p.opw.after > 0;
    for _ in 0..ncallers {
        let n = s.range(p.ops.0, p.ops.1);
        let mut prog: Vec<Op> = vec![];
        for _ in 0..n {
            if lifecycles && s.pct(p.lifecycle_pct) {
                prog.extend(lifecycle(s, p));
            } else {
                prog.push(op(s, p, &p.opw));
            }
        }
        callers.push(prog);
    }
    let nwakers = s.range(p.wakers.0, p.wakers.1);
    let wakers = (0..nwakers)
        .map(|_| {
            let n = s.range(1, 4);
            (0..n)
                .map(|_| match s.weighted(&[2, 3, 1]) {
                    0 => WOp::Yield,
                    1 => WOp::Open { g: s.u8() },
                    _ => WOp::Rewake { g: s.u8() },
                })
                .collect()
        })
        .collect();
    let mut producers: Vec<Vec<POp>> = vec![];
    for _ in 0..p.streams.1 {
        let n = s.range(0, 5);
        producers.push(
            (0..n)
                .map(|_| match s.weighted(&[2, 4, 3, 1]) {
                    0 => POp::Yield,
                    1 => POp::Push { n: if s.pct(6) { s.range(32, 36) as u8 } else { s.range(1, 4) as u8 } },
                    2 => POp::PushDuring,
                    _ => POp::Close,
                })
                .collect(),
        );
    }
    let mut phase = Phase { callers, wakers, producers, ..Default::default() };
    let mut cfg = cfg;
    match p.shape {
        Shape::Suspend => {
            if !phase.callers.is_empty() {
                let c = s.range(0, phase.callers.len() - 1);
                let at = s.range(0, phase.callers[c].len());
                let mid_w = OpW { desync: 10, trysync: 3, futdesync: 4, yield_: 4, opengate: 2, sync: 0, futsync: 0, after: 1, await_: 0, syncwait: 0, pollonce: 0, dropfut: 1, detach: 1, release: 0, waitfor: 0, rewake: 0, ..OpW::default() };
                let mut seq = vec![Op::Suspend { o: s.u8(), slot: 255, id: 0 }, Op::AwaitSuspend { slot: 255 }];
                for _ in 0..s.range(0, 3) {
                    seq.push(op(s, p, &mid_w));
                }
                match s.range(0, 3) {
                    0 | 1 => seq.push(Op::Resume { slot: 255 }),
                    2 => seq.push(Op::DropResumer { slot: 255 }),
                    _ => {}
                }
                let tail = phase.callers[c].split_off(at);
                phase.callers[c].extend(seq);
                phase.callers[c].extend(tail);
            }
        }
        Shape::PipeIn => {
            cfg.streams = cfg.streams.max(1);
            cfg.level = Level::Desync;
            if !phase.callers.is_empty() {
                let c = s.range(0, phase.callers.len() - 1);
                let at = s.range(0, phase.callers[c].len());
                let n = s.range(0, 3);
                let body: Vec<Step> = (0..n)
                    .map(|_| match s.weighted(&[3, 5, 3, 1]) {
                        0 => Step::Touch,
                        1 => Step::Yield,
                        2 => Step::AwaitGate { g: s.u8() },
                        _ => Step::SelfWake,
                    })
                    .collect();
                phase.callers[c].insert(at, Op::PipeIn { o: s.u8(), s: 0, body, id: 0 });
            }
        }
        Shape::PipeDrop | Shape::PipeConsume => {
            let drop_output = p.shape == Shape::PipeDrop;
            cfg.streams = cfg.streams.max(1);
            cfg.level = Level::Desync;
            if !phase.callers.is_empty() {
                let c = s.range(0, phase.callers.len() - 1);
                let at = s.range(0, phase.callers[c].len());
                let n = s.range(0, 2);
                let body: Vec<Step> = (0..n)
                    .map(|_| match s.weighted(&[4, 4, 3, 1]) {
                        0 => Step::Touch,
                        1 => Step::Yield,
                        2 => Step::AwaitGate { g: s.u8() },
                        _ => Step::SelfWake,
                    })
                    .collect();
                let mut seq = vec![Op::Pipe { o: s.u8(), s: 0, depth: s.u8(), body, slot: 255, id: 0 }];
                let nmid = if drop_output { s.range(0, 3) } else { s.range(1, 5) };
                for _ in 0..nmid {
                    seq.push(match s.weighted(&[if drop_output { 6 } else { 14 }, 5, 3, 2, 2]) {
                        0 => Op::Consume { slot: 255, k: s.u8() },
                        1 => Op::Yield,
                        2 => Op::Desync { o: s.u8(), body: vec![Step::Touch], id: 0 },
                        3 => Op::Sync { o: s.u8(), body: vec![], id: 0 },
                        _ => Op::OpenGate { g: s.u8() },
                    });
                }
                if drop_output {
                    seq.push(Op::DropPipe { slot: 255 });
                }
                let tail = phase.callers[c].split_off(at);
                phase.callers[c].extend(seq);
                phase.callers[c].extend(tail);
            }
        }
        _ => {}
    }
    let sched = sched(s, p.sched_bytes.max(64));
    Some(Case { cfg, phases: vec![phase], sched })
}
