#!/bin/bash
# usage: tools/stage_round6.sh <PROP> <n>  -- copies a round-6 sub-agent change from its scratch worktree into seeded/<PROP>-<10+n+...>
P=$1; n=$2; src=/tmp/mut6/$P/out/mut$n; dst=/verif/seeded/$P-$((10+n))
mkdir -p $dst && cp $src/patch.diff $src/demo.rs $dst/ && python3 - $src/meta.json $dst/meta.json <<'PY'
import json,sys
m=json.load(open(sys.argv[1])); m['round']=6
json.dump(m,open(sys.argv[2],'w'),indent=1)
PY
git -C /repo apply --check $dst/patch.diff && echo "$P-$((10+n)) staged, applies on $(git -C /repo rev-parse --short HEAD)" || echo "$P-$((10+n)) DOES NOT APPLY on HEAD"
