//! C14 engine (b): generated multi-threaded programs against the unshimmed `desync` build, with real threads,
//! `futures::executor::block_on` and AddressSanitizer. The schedule is NOT controlled here; the point is that
//! every access really touches heap memory, so a closure run after its storage was released, a borrowed stack
//! buffer used after `sync` returned, or a protected value used after it was freed is an ASan report.
//! Logical canaries (drop counters, 'dead' flags) are checked as well and abort with a message.
#![no_main]
use desync::scheduler::scheduler;
use desync::Desync;
use futures::channel::oneshot;
use futures::executor::block_on;
use futures::prelude::*;
use libfuzzer_sys::fuzz_target;
use std::sync::atomic::{AtomicBool, AtomicUsize, Ordering};
use std::sync::mpsc;
use std::sync::{Arc, Mutex, Once};
use std::time::Duration;

struct Src<'a> {
    d: &'a [u8],
    i: usize,
}
impl<'a> Src<'a> {
    fn u8(&mut self) -> u8 {
        let v = self.d.get(self.i).copied().unwrap_or(0);
        self.i += 1;
        v
    }
    fn below(&mut self, n: usize) -> usize {
        (self.u8() as usize * n) >> 8
    }
}

/// The protected value: heap data that every operation reads and writes
struct Payload {
    data: Box<[u64; 8]>,
    log: Vec<u32>,
    dead: Arc<AtomicBool>,
    drops: Arc<AtomicUsize>,
}

/// What the generated programs need from a protected value
trait Val: Send + Unpin + 'static {
    fn new(drops: Arc<AtomicUsize>) -> Self;
    fn touch(&mut self, tag: u32);
}

/// A protected value without any drop glue (`mem::needs_drop` is false): no destructor can observe when it is freed, only the
/// sanitizer can (every operation writes to its memory)
struct Plain([u64; 8]);

impl Val for Plain {
    fn new(_drops: Arc<AtomicUsize>) -> Plain {
        Plain([0; 8])
    }
    fn touch(&mut self, tag: u32) {
        let cell = &mut self.0[(tag % 8) as usize];
        unsafe { std::ptr::write_volatile(cell, std::ptr::read_volatile(cell).wrapping_add(tag as u64)) };
    }
}

impl Val for Payload {
    fn new(d: Arc<AtomicUsize>) -> Payload {
        Payload { data: Box::new([0; 8]), log: vec![], dead: Arc::new(AtomicBool::new(false)), drops: d }
    }
    fn touch(&mut self, tag: u32) {
        assert!(!self.dead.load(Ordering::SeqCst), "DV-ASAN canary: protected value used after it was destroyed");
        self.data[(tag % 8) as usize] = self.data[(tag % 8) as usize].wrapping_add(tag as u64);
        self.log.push(tag);
    }
}

impl Drop for Payload {
    fn drop(&mut self) {
        self.dead.store(true, Ordering::SeqCst);
        let n = self.drops.fetch_add(1, Ordering::SeqCst);
        assert!(n == 0, "DV-ASAN canary: protected value destroyed twice");
    }
}

#[derive(Clone, Debug)]
enum Op {
    Desync,
    Sync,
    TrySync,
    FutDesyncAwait,
    FutDesyncDrop,
    FutSyncAwait,
    FutSyncPollDrop,
    After,
    Release,
    PanicDesync,
    PanicSync,
    NestedSync,
    Sleep,
    /// a future operation that wakes itself during its first poll (yield-style), awaited
    YieldAwait,
    /// the same, detached
    YieldDetach,
    /// pipe_in fed by a producer thread through a real channel
    PipeIn,
    /// pipe whose whole output is collected by this thread
    PipeCollect,
    /// pipe whose output is dropped after one item while the producer keeps sending
    PipeDropOutput,
}

/// Wakes its own waker during the first poll and returns Pending once
fn yield_now() -> impl Future<Output = ()> {
    let mut yielded = false;
    futures::future::poll_fn(move |cx| {
        if yielded {
            std::task::Poll::Ready(())
        } else {
            yielded = true;
            cx.waker().wake_by_ref();
            std::task::Poll::Pending
        }
    })
}

static HOOK: Once = Once::new();
const INJECTED: &str = "dv-asan injected panic";
static PANICS_ALLOWED: AtomicBool = AtomicBool::new(false);

fn run_program<P: Val>(s: &mut Src) {
    HOOK.call_once(|| {
        let prev = std::panic::take_hook();
        std::panic::set_hook(Box::new(move |info| {
            let msg = info.payload().downcast_ref::<&str>().map(|s| s.to_string()).or_else(|| info.payload().downcast_ref::<String>().cloned()).unwrap_or_default();
            // injected panics and the library's documented reactions to them are expected
            if msg.contains(INJECTED) || msg.contains("panicked queue") || msg.contains("Cannot schedule") {
                return;
            }
            // a sync() whose closure panicked on the pool thread that ran it for the caller: the caller is released and
            // panics in turn (its operation has no result)
            if PANICS_ALLOWED.load(Ordering::SeqCst) && msg.contains("Finished background sync job without result") {
                return;
            }
            prev(info);
            // any other panic (a canary assertion, an unexpected library panic) is a finding
            eprintln!("DV-ASAN unexpected panic: {}", msg);
            std::process::abort();
        }));
    });
    let pool = s.below(4);
    let allow_panic = s.u8() < 64;
    PANICS_ALLOWED.store(allow_panic, Ordering::SeqCst);
    // scope rules (see DESIGN.md 5.2): with no pool thread, or when an operation may panic, a single caller thread is used:
    // a call that is in flight on an object while one of its operations panics may wait forever, and with pool 0 an
    // awaited future only makes progress if no other context uses the object
    let single = pool == 0 || allow_panic;
    let sch = scheduler();
    sch.set_max_threads(pool);
    sch.despawn_threads_if_overloaded();
    let nobj = 1 + s.below(3);
    let nthreads = if single { let _ = s.below(3); 1 } else { 1 + s.below(3) };
    let mut objs: Vec<Arc<Desync<P>>> = vec![];
    let mut drops = vec![];
    let poisoned: Arc<Vec<AtomicBool>> = Arc::new((0..nobj).map(|_| AtomicBool::new(false)).collect());
    for _ in 0..nobj {
        let d = Arc::new(AtomicUsize::new(0));
        drops.push(d.clone());
        objs.push(Arc::new(Desync::new(P::new(d))));
    }
    // programs
    let mut progs: Vec<Vec<(Op, usize)>> = vec![];
    for _ in 0..nthreads {
        let n = 1 + s.below(5);
        let mut p = vec![];
        for _ in 0..n {
            let o = s.below(nobj);
            let k = if !allow_panic && pool >= 1 && s.u8() < 48 { 15 + s.below(3) } else { s.below(if allow_panic { 15 } else { 13 }) };
            let op = match k {
                0 => Op::Desync,
                1 => Op::Sync,
                2 => Op::TrySync,
                3 => Op::FutDesyncAwait,
                4 => Op::FutDesyncDrop,
                5 => Op::FutSyncAwait,
                // (C08 promises that the queue is released after a cancellation only "given at least one pool thread")
                6 if pool == 0 => Op::FutSyncAwait,
                6 => Op::FutSyncPollDrop,
                7 => Op::After,
                8 => Op::Release,
                // (a nested sync is a second context: it may be in flight on an object at the moment one of that object's
                // operations panics, and may then wait forever - no property covers it - taking its own object with it)
                9 if allow_panic => Op::Desync,
                9 => Op::NestedSync,
                10 => Op::Sleep,
                11 => Op::YieldAwait,
                12 => Op::YieldDetach,
                13 => Op::PanicDesync,
                14 => Op::PanicSync,
                15 => Op::PipeIn,
                16 => Op::PipeCollect,
                _ => Op::PipeDropOutput,
            };
            p.push((op, o));
        }
        progs.push(p);
    }
    if std::env::var("DV_ASAN_VERBOSE").is_ok() {
        eprintln!("pool={} allow_panic={} objects={} programs={:?}", pool, allow_panic, nobj, progs);
    }
    let (done_tx, done_rx) = mpsc::channel::<()>();
    let mut handles = vec![];
    for (ti, prog) in progs.into_iter().enumerate() {
        let mut mine: Vec<Option<Arc<Desync<P>>>> = objs.iter().map(|o| Some(o.clone())).collect();
        let poisoned = poisoned.clone();
        let done_tx = done_tx.clone();
        handles.push(std::thread::spawn(move || {
            for (k, (op, o)) in prog.into_iter().enumerate() {
                let tag = (ti * 100 + k) as u32;
                let h = match mine[o].as_ref() {
                    Some(h) => h.clone(),
                    None => continue,
                };
                let is_poisoned = || poisoned[o].load(Ordering::SeqCst);
                // every call may legitimately panic once the object is poisoned
                let r = std::panic::catch_unwind(std::panic::AssertUnwindSafe(|| match op {
                    Op::Desync => h.desync(move |p| p.touch(tag)),
                    Op::Sync => {
                        // the closure borrows a heap buffer owned by this frame
                        let mut local = vec![tag as u64; 16];
                        let r = h.sync(|p| {
                            p.touch(tag);
                            local[3] += 1;
                            local.iter().sum::<u64>()
                        });
                        assert!(r == tag as u64 * 16 + 1, "DV-ASAN canary: sync returned a foreign result");
                        drop(local);
                    }
                    Op::TrySync => {
                        let mut local = vec![tag as u64; 16];
                        let _ = h.try_sync(|p| {
                            p.touch(tag);
                            local[5] += 1;
                        });
                        drop(local);
                    }
                    Op::FutDesyncAwait => {
                        let f = h.future_desync(move |p| async move { p.touch(tag); tag }.boxed());
                        let r = block_on(f);
                        assert!(r == Ok(tag) || is_poisoned(), "DV-ASAN canary: future_desync resolved to {:?}", r);
                    }
                    Op::FutDesyncDrop => {
                        let f = h.future_desync(move |p| async move { p.touch(tag); }.boxed());
                        drop(f);
                    }
                    Op::FutSyncAwait => {
                        let mut local = vec![tag as u64; 16];
                        let f = h.future_sync(|p| {
                            // the closure (not the future it returns) may borrow from this frame
                            local[1] += 1;
                            async move {
                                p.touch(tag);
                                tag
                            }
                            .boxed()
                        });
                        let r = block_on(f);
                        assert!(r == Ok(tag) || is_poisoned(), "DV-ASAN canary: future_sync resolved to {:?}", r);
                        drop(local);
                    }
                    Op::FutSyncPollDrop => {
                        let mut local = vec![tag as u64; 16];
                        {
                            let mut f = h.future_sync(|p| {
                                local[1] += 1;
                                async move {
                                    p.touch(tag);
                                    futures::pending!();
                                    p.touch(tag);
                                }
                                .boxed()
                            });
                            let w = futures::task::noop_waker();
                            let mut cx = std::task::Context::from_waker(&w);
                            let mut f = unsafe { std::pin::Pin::new_unchecked(&mut f) };
                            let _ = f.as_mut().poll(&mut cx);
                            let _ = f.as_mut().poll(&mut cx);
                        }
                        drop(local);
                    }
                    Op::After => {
                        let (tx, rx) = oneshot::channel::<u32>();
                        let f = h.after(rx, move |p, v| {
                            p.touch(tag);
                            v.unwrap_or(0)
                        });
                        std::thread::spawn(move || {
                            let _ = tx.send(tag);
                        });
                        let r = block_on(f);
                        assert!(r == Ok(tag) || is_poisoned(), "DV-ASAN canary: after resolved to {:?}", r);
                    }
                    Op::NestedSync => {
                        // a job on this object syncs on a higher-numbered one
                        if o + 1 < mine.len() {
                            if let Some(h2) = mine[o + 1].clone() {
                                h.desync(move |p| {
                                    p.touch(tag);
                                    let _ = std::panic::catch_unwind(std::panic::AssertUnwindSafe(|| h2.sync(|p2| p2.touch(tag))));
                                });
                            }
                        }
                    }
                    Op::Sleep => std::thread::sleep(Duration::from_micros(50)),
                    Op::YieldAwait => {
                        let f = h.future_desync(move |p| {
                            async move {
                                p.touch(tag);
                                yield_now().await;
                                p.touch(tag);
                                tag
                            }
                            .boxed()
                        });
                        let r = block_on(f);
                        assert!(r == Ok(tag) || is_poisoned(), "DV-ASAN canary: future_desync (yielding) resolved to {:?}", r);
                    }
                    Op::YieldDetach => {
                        h.future_desync(move |p| {
                            async move {
                                p.touch(tag);
                                yield_now().await;
                                p.touch(tag);
                            }
                            .boxed()
                        })
                        .detach();
                    }
                    Op::PanicDesync => {
                        poisoned[o].store(true, Ordering::SeqCst);
                        h.desync(move |p| {
                            p.touch(tag);
                            panic!("{}", INJECTED);
                        });
                    }
                    Op::PanicSync => {
                        poisoned[o].store(true, Ordering::SeqCst);
                        h.sync(|p| {
                            p.touch(tag);
                            panic!("{}", INJECTED);
                        });
                    }
                    Op::Release => {}
                    Op::PipeIn => {
                        let (mut tx, rx) = futures::channel::mpsc::channel::<u32>(2);
                        let n = 1 + (tag % 40);
                        let seen = Arc::new(AtomicUsize::new(0));
                        let seen2 = seen.clone();
                        desync::pipe_in(h.clone(), rx, move |p: &mut P, item: u32| {
                            p.touch(item);
                            seen2.fetch_add(1, Ordering::SeqCst);
                            async {}.boxed()
                        });
                        let producer = std::thread::spawn(move || {
                            for i in 0..n {
                                if block_on(tx.send(i)).is_err() { break; }
                            }
                        });
                        let _ = producer.join();
                        // everything that was sent is processed without anybody asking again
                        let t0 = std::time::Instant::now();
                        while seen.load(Ordering::SeqCst) < n as usize {
                            if t0.elapsed() > Duration::from_secs(6) {
                                eprintln!("DV-ASAN: watchdog: pipe_in processed {} of {} items (inconclusive)", seen.load(Ordering::SeqCst), n);
                                loop { std::thread::sleep(Duration::from_secs(3600)); }
                            }
                            std::thread::sleep(Duration::from_micros(200));
                        }
                    }
                    Op::PipeCollect => {
                        let (mut tx, rx) = futures::channel::mpsc::channel::<u32>(1);
                        let n = 1 + (tag % 40);
                        let mut out = desync::pipe(h.clone(), rx, move |p: &mut P, item: u32| {
                            p.touch(item);
                            async move { item.wrapping_mul(3) }.boxed()
                        });
                        out.set_backpressure_depth(1 + (tag as usize % 4));
                        let producer = std::thread::spawn(move || {
                            for i in 0..n {
                                if block_on(tx.send(i)).is_err() { break; }
                            }
                        });
                        let got: Vec<u32> = block_on(out.collect());
                        let _ = producer.join();
                        // (what a pipe delivers is C12's business and is judged under the controlled scheduler; here the outputs only have to
                        // be real memory)
                        let _ = got.iter().fold(0u32, |a, b| a.wrapping_add(*b));
                    }
                    Op::PipeDropOutput => {
                        let (mut tx, rx) = futures::channel::mpsc::channel::<u32>(1);
                        let mut out = desync::pipe(h.clone(), rx, move |p: &mut P, item: u32| {
                            p.touch(item);
                            async move { item }.boxed()
                        });
                        let producer = std::thread::spawn(move || {
                            for i in 0..8u32 {
                                if block_on(tx.send(i)).is_err() { break; }
                            }
                        });
                        let _first = block_on(out.next());
                        drop(out);
                        let _ = producer.join();
                    }
                }));
                if r.is_err() && !is_poisoned() {
                    eprintln!("DV-ASAN: a call on a healthy object panicked");
                    std::process::abort();
                }
                drop(h);
                // (the same goes for a sync() whose closure panicked on the pool thread that ran it for this caller: this caller is
                // released as soon as the job is discarded, which is before the panic has finished unwinding on that thread)
                if let Op::PanicDesync | Op::PanicSync = op {
                    if pool > 0 {
                        // the job panics on a pool thread at some unknown later time: a call that is in flight on the object at
                        // that moment may wait forever (no property covers it), so this thread stops using the object
                        if let Some(h) = mine[o].take() {
                            std::mem::forget(h);
                        }
                    }
                }
                if let Op::Release = op {
                    if !is_poisoned() {
                        mine[o] = None;
                    }
                }
            }
            // a poisoned Desync must not be dropped outside unwinding (it panics by design)
            for (o, h) in mine.into_iter().enumerate() {
                if let Some(h) = h {
                    if poisoned[o].load(Ordering::SeqCst) {
                        std::mem::forget(h);
                    } else {
                        let _ = std::panic::catch_unwind(std::panic::AssertUnwindSafe(move || drop(h)));
                    }
                }
            }
            let _ = done_tx.send(());
        }));
    }
    drop(done_tx);
    // the main thread's own handles
    let poisoned_main = poisoned.clone();
    let mut finished = 0;
    while finished < nthreads {
        match done_rx.recv_timeout(Duration::from_secs(8)) {
            Ok(()) => finished += 1,
            Err(_) => {
                // a hang is not a memory-safety finding: leave it to libFuzzer's -timeout (reported as inconclusive)
                eprintln!("DV-ASAN: watchdog: program did not finish (inconclusive)");
                if std::env::var("DV_ASAN_GDB").is_ok() {
                    // diagnosis aid: where is every thread?
                    let _ = std::process::Command::new("gdb").args(["-p", &std::process::id().to_string(), "-batch", "-ex", "thread apply all bt 25"]).status();
                }
                loop {
                    std::thread::sleep(Duration::from_secs(3600));
                }
            }
        }
    }
    for h in handles {
        let _ = h.join();
    }
    for (o, h) in objs.into_iter().enumerate() {
        if poisoned_main[o].load(Ordering::SeqCst) {
            std::mem::forget(h);
        } else {
            let _ = std::panic::catch_unwind(std::panic::AssertUnwindSafe(move || drop(h)));
            // (queued jobs may still own handles, so 'destroyed by now' is not checked here; twice / use-after are)
            let n = drops[o].load(Ordering::SeqCst);
            if n > 1 {
                eprintln!("DV-ASAN canary: value of object {} destroyed {} times", o, n);
                std::process::abort();
            }
        }
    }
    let _ = Mutex::new(());
}

fuzz_target!(|data: &[u8]| {
    if data.len() < 4 {
        return;
    }
    let mut s = Src { d: data, i: 0 };
    // a third of the programs work on values that have no destructor
    if s.u8() % 3 == 0 {
        run_program::<Plain>(&mut s);
    } else {
        run_program::<Payload>(&mut s);
    }
});
