//! vsched: a deterministic, schedule-controlled replacement for the std primitives used by `desync`.
//!
//! See /verif/DESIGN.md section 2.2.

pub mod rt;
pub mod sync;
pub mod thread;

pub use rt::{exec_local, drop_exec_locals};

/// Replacement for the parts of `std::panic` the library uses: catching a panic also clears the per-task panicking flag
/// (simulated threads share one OS thread, so `std::thread::panicking()` cannot be used for them).
pub mod panic {
    pub use std::panic::{AssertUnwindSafe, UnwindSafe};

    pub fn catch_unwind<F: FnOnce() -> R + UnwindSafe, R>(f: F) -> std::thread::Result<R> {
        let r = std::panic::catch_unwind(f);
        if r.is_err() && crate::rt::in_task() {
            crate::rt::clear_panicking_public();
        }
        r
    }
}
