#!/bin/bash
# usage: verify_seeded.sh <PROP> <n>   -- re-confirms a sub-agent's mutation in its scratch worktree /tmp/mut/<PROP>:
# patch applies, suite passes with it (modulo known failing/flaky tests), demo fails with it and passes without.
P=$1; N=$2; W=${MUTROOT:-/tmp/mut}/$P; O=$W/out/mut$N
cd $W || exit 2
git checkout -q -- . ; rm -f tests/demo.rs; [ -n "${BASE:-}" ] && git checkout -q --detach $BASE
git apply --check $O/patch.diff || { echo "$P mut$N: PATCH DOES NOT APPLY"; exit 1; }
cp $O/demo.rs tests/demo.rs
echo "== $P mut$N: demo WITHOUT mutation"
for i in 1 2; do timeout 300 cargo test --offline --test demo 2>&1 | grep -E "^test result|panicked at" | head -3; done
git apply $O/patch.diff
echo "== $P mut$N: demo WITH mutation"
for i in 1 2; do timeout 300 cargo test --offline --test demo 2>&1 | grep -E "^test result|panicked at" | head -3; done
rm -f tests/demo.rs
echo "== $P mut$N: suite WITH mutation"
timeout 900 cargo nextest run --workspace --no-fail-fast --test-threads 8 --offline 2>&1 | grep -E "Summary|^\s+(FAIL|TIMEOUT)" | sort | uniq
git checkout -q -- . ; rm -f tests/demo.rs; [ -n "${BASE:-}" ] && git checkout -q --detach $BASE
echo "== $P mut$N: done"
