//! Shadow state of one execution: logical clock, per-operation stamps, per-object occupancy and
//! the oracles that are evaluated at events (begin / end / return / drop).
//!
//! All tasks of an execution run on one OS thread and code between scheduling points is atomic,
//! so the state lives in an unsynchronised cell (`Sh`); accesses never span a scheduling point.

use crate::case::{Case, OpId};
use std::cell::UnsafeCell;
use std::sync::Arc;
use std::task::Waker;
use vsched::rt;

/// (boxed: a leaked Weak<World> then pins only a few words, see Payload)
pub struct Sh<T>(UnsafeCell<Box<T>>);
unsafe impl<T> Send for Sh<T> {}
unsafe impl<T> Sync for Sh<T> {}
impl<T> Sh<T> {
    pub fn new(t: T) -> Sh<T> {
        Sh(UnsafeCell::new(Box::new(t)))
    }
    #[inline]
    pub fn with<R>(&self, f: impl FnOnce(&mut T) -> R) -> R {
        unsafe { f(&mut **self.0.get()) }
    }
}

#[derive(Clone, Copy, Debug, PartialEq, Eq, Hash)]
pub enum Kind {
    Desync,
    Sync,
    TrySync,
    FutDesync,
    FutSync,
    After,
    Suspend,
    PipeIn,
    Pipe,
    PipeItem,
    Attempt,
}

impl Kind {
    /// the scheduling call itself runs the closure before returning
    pub fn is_sync_like(self) -> bool {
        matches!(self, Kind::Sync | Kind::TrySync)
    }
    pub fn is_async(self) -> bool {
        matches!(self, Kind::Desync | Kind::FutDesync | Kind::After | Kind::PipeItem)
    }
}

#[derive(Clone, Debug)]
pub struct OpRec {
    pub kind: Kind,
    pub obj: usize,
    pub phase: usize,
    /// caller index within the phase (None for nested operations)
    pub caller: Option<usize>,
    pub parent: Option<OpId>,
    pub inv: u64,
    pub ret: u64,
    pub start: u64,
    pub end: u64,
    pub runs: u32,
    /// the scheduling call returned normally
    pub accepted: bool,
    /// the operation will never run / was cut short because its future was dropped (future_sync)
    pub cancelled: bool,
    pub panicked: bool,
    pub busy: bool,
    pub seen: u32,
    pub token_drops: u32,
    pub in_poll: u32,
    pub waiting_gate: Option<usize>,
    /// suspended after waking itself during the poll (Step::SelfWake)
    pub waiting_self: bool,
    /// the scheduling call of this operation ended by unwinding (a panic came out of it)
    pub call_unwound: bool,
    pub gate_polled: bool,
    pub runner_task: usize,
    pub resolved: bool,
    pub fut_dropped: bool,
    /// the task that made the scheduling call
    pub inv_task: usize,
    pub blocking_calls_at_inv: u32,
    pub has_panic: bool,
    pub suspend_step: u64,
    /// the task that polled this op's gate wait last (the context its registered waker resumes)
    pub last_poll_task: usize,
    /// `stage_seq` of the caller that performed the last poll, at that moment (0 if it was not a caller)
    pub last_poll_stage_seq: u64,
}

impl OpRec {
    pub fn new(kind: Kind, obj: usize, phase: usize, caller: Option<usize>, parent: Option<OpId>) -> OpRec {
        OpRec {
            kind,
            obj,
            phase,
            caller,
            parent,
            inv: 0,
            ret: 0,
            start: 0,
            end: 0,
            runs: 0,
            accepted: false,
            cancelled: false,
            panicked: false,
            busy: false,
            seen: 0,
            token_drops: 0,
            in_poll: 0,
            waiting_gate: None,
            waiting_self: false,
            call_unwound: false,
            gate_polled: false,
            runner_task: usize::MAX,
            resolved: false,
            fut_dropped: false,
            inv_task: usize::MAX,
            blocking_calls_at_inv: 0,
            has_panic: false,
            suspend_step: 0,
            last_poll_task: usize::MAX,
            last_poll_stage_seq: 0,
        }
    }
    pub fn ended(&self) -> bool {
        self.end != 0
    }
}

#[derive(Clone, Debug, Default)]
pub struct SuspendSt {
    pub op: OpId,
    /// stamp at which the suspend future resolved (0 = not yet)
    pub resolved_at: u64,
    /// stamp at which the resumer was used or dropped (0 = not yet)
    pub resumed_at: u64,
    /// the suspend future was dropped without having been awaited to resolution
    pub fut_dropped: bool,
}

#[derive(Clone, Debug, Default)]
pub struct ObjSt {
    pub occupant: Option<OpId>,
    pub log_len: u32,
    pub dead: bool,
    pub drops: u32,
    pub died_at: u64,
    pub last_progress: u64,
    pub suspensions: Vec<SuspendSt>,
    pub expect_panicked: bool,
    /// the last owner is being dropped by this task (stage tracking)
    pub dropping_by: Option<usize>,
    /// an operation of this object has panicked (injected by the case): from then on nothing may run on it
    pub panic_injected: Option<OpId>,
}

#[derive(Default)]
pub struct GateSt {
    pub open: bool,
    pub opened_at: u64,
    /// opened by the root in the final stage (after every earlier phase has gone quiet)
    pub opened_in_final: bool,
    /// (await instance, waker)
    pub wakers: Vec<(usize, Waker)>,
    pub next_key: usize,
    /// every waker ever registered (stale ones included): `rewake` fires them again, as the Waker contract allows
    pub history: Vec<Waker>,
}

#[derive(Default)]
pub struct StreamSt {
    pub items: std::collections::VecDeque<u32>,
    pub pushed: Vec<u32>,
    pub closed: bool,
    pub waker: Option<Waker>,
    pub drops: u32,
    pub processed: Vec<u32>,
    pub fn_drops: u32,
    pub outputs: Vec<u32>,
    pub out_ended: bool,
    pub used: bool,
    pub pipe_obj: Option<usize>,
    pub is_pipe: bool,
    pub out_dropped: bool,
    pub polled_pending: u32,
    pub depth: usize,
    /// times this stream has woken its own waker from inside poll_next
    pub self_wakes: u8,
    /// poll_next has returned None
    pub end_returned: bool,
    /// the stream is inside the wake_by_ref call it makes from poll_next
    pub in_self_wake: bool,
}

#[derive(Clone, Debug, PartialEq)]
pub enum Stage {
    Idle,
    /// inside the scheduling call of this op
    InCall(OpId),
    Awaiting(OpId),
    SyncWaiting(OpId),
    Dropping(usize),
    WaitFor,
    Consuming(usize),
    Done,
}

#[derive(Clone, Debug)]
pub struct CallerSt {
    pub phase: usize,
    pub idx: usize,
    pub task: usize,
    pub stage: Stage,
    pub pos: usize,
    /// counts the changes of `stage`: identifies one particular wait of this caller
    pub stage_seq: u64,
}

#[derive(Clone, Debug)]
pub struct Violation {
    pub prop: String,
    pub clause: String,
    pub obj: Option<usize>,
    pub op: Option<OpId>,
    pub detail: String,
}

/// Counters used to classify cases (non-triviality rules, evidence histograms)
#[derive(Clone, Debug, Default)]
pub struct Stats {
    /// a destructor of a panicking job synchronised with another object while the job was unwinding
    pub syncs_from_destructors_while_unwinding: u32,
    /// set_backpressure_depth called on a pipe that already exists
    pub depth_changes: u32,
    /// polls performed by inline tasks from inside a waker call
    pub inline_polls: u32,
    /// futures of completed future operations destroyed by the library (checked to happen inside the operation's slot)
    pub futures_destroyed_after_completion: u32,
    /// despawn_threads_if_overloaded ran while callers were scheduling work
    pub concurrent_despawns: u32,
    pub concurrent_raises: u32,
    /// one task awaited two futures with one waker
    pub joins: u32,
    /// an input stream woke its last waker from its destructor
    pub stream_drop_wakes: u32,
    /// an input stream woke its own waker from inside poll_next
    pub stream_self_wakes: u32,
    /// a stream ended because the library dropped the stream that owned its sender (chained pipes)
    pub chained_closes: u32,
    /// a consumer's throw-away poll of a pipe output found nothing, so it then waited with a different waker
    pub consumer_probe_pending: u32,
    /// Step::SelfWake polls (wake-up delivered during the poll)
    pub self_wakes: u32,
    /// last-owner drops performed by a thread that is unwinding from its own panic
    pub unwinding_last_owner_drops: u32,
    /// an op began while another op on the same object was invoked but not finished
    pub contended_begins: u32,
    /// scheduling points taken inside an op while a competitor existed on the same object
    pub yields_under_contention: u32,
    /// begin on a task different from the invoking task, for sync-like ops
    pub sync_ran_elsewhere: u32,
    /// sync-like op whose caller ran other ops of the object first (drain path)
    pub sync_drained_others: u32,
    pub sync_immediate: u32,
    /// pairs constrained by real-time order whose second op was invoked before the first started
    pub constrained_pairs_pending: u32,
    pub constrained_pairs: u32,
    pub trysync_ok: u32,
    pub trysync_busy: u32,
    pub trysync_contended: u32,
    pub gate_wake_while_running: u32,
    pub gate_suspensions: u32,
    pub stale_wakes: u32,
    pub accepted_async: u32,
    pub accepted_with_pool_threads: u32,
    pub last_owner_drop_with_pending: u32,
    pub last_owner_drops: u32,
    pub futures_dropped_unresolved: u32,
    pub futures_awaited: u32,
    pub futsync_cancelled: u32,
    pub pool_tasks_created: u32,
    pub spawn_at_limit: u32,
    pub items_while_busy: u32,
    pub backpressure_hits: u32,
    pub consumer_pending: u32,
    pub suspended_ops_held: u32,
    pub panics_injected: u32,
    pub attempts_panicked: u32,
    pub pipe_dropped_while_job: u32,
    pub pipe_dropped_open: u32,
    pub max_lowered_below_live: u32,
    pub racy_wakes: u32,
    pub labels: Vec<&'static str>,
}

pub struct Inner {
    pub clock: u64,
    pub ops: Vec<OpRec>,
    pub objs: Vec<ObjSt>,
    pub gates: Vec<GateSt>,
    pub streams: Vec<StreamSt>,
    pub callers: Vec<CallerSt>,
    pub violations: Vec<Violation>,
    pub stats: Stats,
    pub cur_max: usize,
    pub pool_zero: bool,
    pub history: Option<Vec<String>>,
    pub baton_waiters: Vec<usize>,
    pub root_stage: String,
    pub phase: usize,
    pub final_stage: bool,
    /// logical time at which the final stage began (0 = not yet)
    pub final_stage_clock: u64,
    /// the case injects a panic: callers may stay blocked forever on the panicked object and keep handles alive
    /// futures handed to inline tasks: (operation, resolved)
    pub inline_futs: Vec<(OpId, bool)>,
    /// pipe outputs handed to inline tasks: (stream, finished or torn down)
    pub inline_consumers: Vec<(usize, bool)>,
    pub panic_case: bool,
    /// logical time of the injected panic (0 = none yet)
    pub panic_clock: u64,
    /// a despawn that runs concurrently with scheduling calls is in progress
    pub despawn_in_progress: bool,
    /// panic case without an aftermath phase: nothing is deliberately scheduled once the panic has happened
    pub quiet_panic_variant: bool,
    /// the root has started to release its handles (until then, with root_holds, every object certainly has an owner)
    pub root_released: bool,
}

pub struct World {
    pub case: Box<Case>,
    pub inner: Sh<Inner>,
}

/// Result token of an operation: (op id, length of the log when the op began)
#[derive(Clone, Copy, Debug, PartialEq, Eq)]
pub struct Res {
    pub op: u32,
    pub seen: u32,
}

/// The protected value of every generated object
pub struct Payload {
    pub obj: usize,
    pub log: Vec<u32>,
    /// weak: the value of a panicked object is never destroyed and must not keep the shadow state of its case alive
    pub w: std::sync::Weak<World>,
}

impl Drop for Payload {
    fn drop(&mut self) {
        if let Some(w) = self.w.upgrade() {
            w.payload_dropped(self.obj);
        }
    }
}

impl World {
    #[inline]
    pub fn with<R>(&self, f: impl FnOnce(&mut Inner) -> R) -> R {
        self.inner.with(f)
    }

    pub fn tick(&self) -> u64 {
        self.with(|i| {
            i.clock += 1;
            i.clock
        })
    }

    pub fn hist(&self, f: impl FnOnce() -> String) {
        self.with(|i| {
            if let Some(h) = i.history.as_mut() {
                let s = f();
                let line = format!("[{:>4}|t{}|s{}] {}", i.clock, if rt::in_task() { rt::current() as i64 } else { -1 }, if rt::in_task() { rt::steps() } else { 0 }, s);
                if std::env::var_os("DV_VERBOSE").is_some() {
                    // (a case that kills its process never gets to print its history: stream it)
                    eprintln!("{}", line);
                }
                h.push(line);
            }
        })
    }

    /// Records a violation and ends the execution at once.
    pub fn fail(&self, prop: &str, clause: &str, obj: Option<usize>, op: Option<OpId>, detail: String) -> ! {
        self.note(prop, clause, obj, op, detail);
        rt::abort(format!("{} {}", prop, clause))
    }

    /// Records a violation without ending the execution (end-of-run obligations).
    pub fn note(&self, prop: &str, clause: &str, obj: Option<usize>, op: Option<OpId>, detail: String) {
        self.hist(|| format!("VIOLATION {} {} obj={:?} op={:?} {}", prop, clause, obj, op, detail));
        self.with(|i| i.violations.push(Violation { prop: prop.to_string(), clause: clause.to_string(), obj, op, detail }));
    }

    /// Stamp: the scheduling call of `op` is entered
    pub fn inv(&self, op: OpId) {
        let task = rt::current();
        let bc = rt::blocking_calls(task);
        self.with(|i| {
            i.clock += 1;
            let c = i.clock;
            let o = &mut i.ops[op];
            o.inv = c;
            o.inv_task = task;
            o.blocking_calls_at_inv = bc;
            let obj = o.obj;
            if i.objs[obj].suspensions.iter().any(|s| s.resolved_at != 0 && s.resumed_at == 0) {
                i.stats.suspended_ops_held += 1;
            }
        });
        self.hist(|| format!("inv  #{}", op));
    }

    /// Stamp: the scheduling call of `op` returned normally
    pub fn ret(&self, op: OpId) {
        let mut waiters = vec![];
        self.with(|i| {
            i.clock += 1;
            let c = i.clock;
            let o = &mut i.ops[op];
            o.ret = c;
            o.accepted = true;
            if o.kind.is_async() {
                i.stats.accepted_async += 1;
                if i.stats.pool_tasks_created >= 1 {
                    i.stats.accepted_with_pool_threads += 1;
                }
            }
            waiters = std::mem::take(&mut i.baton_waiters);
        });
        for t in waiters {
            rt::unpark_nosched(t);
        }
        self.hist(|| format!("ret  #{}", op));
    }

    pub fn wake_batons(&self) {
        let waiters = self.with(|i| std::mem::take(&mut i.baton_waiters));
        for t in waiters {
            rt::unpark_nosched(t);
        }
    }

    /// The closure / future of `op` starts executing with access to the payload
    pub fn begin(&self, op: OpId, p: &mut Payload) {
        let task = rt::current();
        let mut fail: Option<(&'static str, &'static str, String)> = None;
        self.with(|i| {
            i.clock += 1;
            let c = i.clock;
            let obj = i.ops[op].obj;
            let kind = i.ops[op].kind;
            let dead_now = i.objs[obj].dead;
            {
                let o = &mut i.ops[op];
                o.runs += 1;
                o.start = c;
                o.runner_task = task;
                // (the payload is not touched if its value has been destroyed: `p` dangles then)
                o.seen = if dead_now { 0 } else { p.log.len() as u32 };
            }
            let o = i.ops[op].clone();
            let ob = &i.objs[obj];
            if let Some(pop) = ob.panic_injected {
                // (checked first: what the revived queue runs may be a closure whose caller has long unwound)
                fail = Some(("C15", "ran-after-panic", format!("operation #{} ({:?}) started on o{} after operation #{} of that object had panicked: a panicked queue must not run anything again", op, kind, obj, pop)));
            } else if o.runs > 1 {
                fail = Some(("C03", "duplicated", format!("operation #{} ran {} times", op, o.runs)));
            } else if ob.dead {
                fail = Some(("C05", "use-after-destroy", format!("operation #{} started after the value of o{} was destroyed", op, obj)));
            } else if let Some(other) = ob.occupant {
                fail = Some(("C01", "overlap", format!("operation #{} started on o{} while #{} is still executing (suspended or running)", op, obj, other)));
            } else if o.token_drops > 0 {
                fail = Some(("C14", "run-after-release", format!("closure of #{} ran after its storage was released", op)));
            } else if kind.is_sync_like() && (o.ret != 0 || o.inv == 0) {
                fail = Some(("C04", "closure-outside-call", format!("closure of #{} ran outside its call (inv={}, ret={})", op, o.inv, o.ret)));
            } else if kind == Kind::FutSync && o.in_poll == 0 {
                fail = Some(("C08", "ran-outside-poll", format!("future_sync operation #{} started although its future is not being polled", op)));
            } else if kind == Kind::FutSync && o.fut_dropped {
                fail = Some(("C08", "ran-after-drop", format!("future_sync operation #{} started after its future was dropped", op)));
            } else if !dead_now && p.log.len() as u32 != ob.log_len {
                fail = Some(("C01", "log-mismatch", format!("o{}: protected log has {} entries, shadow has {}", obj, p.log.len(), ob.log_len)));
            }
            // (items of a pipe are scheduled by the pipe's poll job, whose position in the queue the harness cannot stamp)
            if fail.is_none() && kind != Kind::PipeItem {
                // C02: every op whose call returned before this one was invoked must have finished
                for (aid, a) in i.ops.iter().enumerate() {
                    if aid != op && a.obj == obj && a.accepted && a.ret != 0 && a.ret < o.inv && !a.ended() && !a.cancelled && !a.busy && a.kind != Kind::Suspend && a.kind != Kind::Pipe && a.kind != Kind::PipeIn && a.kind != Kind::Attempt {
                        fail = Some(("C02", "order", format!("operation #{} ({:?}) started on o{} before #{} ({:?}) finished, although #{}'s call returned (t={}) before #{} was invoked (t={})", op, kind, obj, aid, a.kind, aid, a.ret, op, o.inv)));
                        break;
                    }
                }
            }
            if fail.is_none() {
                // C13: nothing scheduled after a suspension starts while it is in force
                for s in i.objs[obj].suspensions.iter() {
                    let sop = &i.ops[s.op];
                    if s.resolved_at != 0 && s.resumed_at == 0 && o.inv > sop.ret && sop.ret != 0 && kind != Kind::Suspend {
                        fail = Some(("C13", "ran-while-suspended", format!("operation #{} (invoked t={}) started on o{} while the queue is suspended by #{} (requested t={}, in force since t={})", op, o.inv, obj, s.op, sop.ret, s.resolved_at)));
                        break;
                    }
                    // the suspend request is itself a place in the queue: while its future is alive and unresolved, either the
                    // suspension job has not run yet (then nothing scheduled after it may run) or the queue is already suspended
                    if s.resolved_at == 0 && s.resumed_at == 0 && !s.fut_dropped && o.inv > sop.ret && sop.ret != 0 && kind != Kind::Suspend && kind != Kind::PipeItem {
                        fail = Some(("C13", "overtook-suspend-request", format!("operation #{} (invoked t={}) started on o{} although the suspension #{} requested before it (t={}) has not been resumed", op, o.inv, obj, s.op, sop.ret)));
                        break;
                    }
                }
            }
            // statistics
            let contended = i.ops.iter().enumerate().any(|(aid, a)| aid != op && a.obj == obj && a.inv != 0 && !a.ended() && !a.cancelled && !a.busy && a.kind != Kind::Suspend && a.kind != Kind::Pipe && a.kind != Kind::PipeIn);
            if contended {
                i.stats.contended_begins += 1;
            }
            if kind.is_sync_like() {
                if task != o.inv_task {
                    i.stats.sync_ran_elsewhere += 1;
                } else if i.ops.iter().enumerate().any(|(aid, a)| aid != op && a.obj == obj && a.runner_task == task && a.start > o.inv) {
                    i.stats.sync_drained_others += 1;
                } else {
                    i.stats.sync_immediate += 1;
                }
            }
            for a in i.ops.iter() {
                if a.obj == obj && a.ret != 0 && a.ret < o.inv && a.accepted && !a.busy {
                    i.stats.constrained_pairs += 1;
                    if a.start == 0 || a.start > o.inv {
                        i.stats.constrained_pairs_pending += 1;
                    }
                }
            }
            i.objs[obj].occupant = Some(op);
            i.objs[obj].last_progress = c;
        });
        self.hist(|| format!("BEGIN #{} on task {}", op, task));
        if self.with(|i| !i.baton_waiters.is_empty()) {
            self.wake_batons();
        }
        if let Some((p_, c, d)) = fail {
            let (obj, kind, occ_cancelled_futsync) = self.with(|i| {
                let obj = i.ops[op].obj;
                let occ = i.objs[obj].occupant.filter(|o| *o != op).or_else(|| None);
                let _ = occ;
                (obj, i.ops[op].kind, false)
            });
            // an overlap / order violation is also a violation of the starting operation's own contract
            // (sync: "once the operations ahead of it have completed"; try_sync / future_sync / pipes: "exclusive, in-order access")
            if p_ == "C15" && c == "ran-after-panic" && kind.is_sync_like() && self.with(|i| i.ops[op].call_unwound || i.ops[op].ret != 0) {
                // what the revived queue runs is the lifetime-erased closure of a sync-like call that has long ended
                self.note("C14", "closure-run-after-its-call-ended", Some(obj), Some(op), d.clone());
            }
            if p_ == "C05" && c == "use-after-destroy" {
                self.note("C14", "value-used-after-free", Some(obj), Some(op), d.clone());
            }
            if p_ == "C01" && c == "overlap" {
                // two operations hold `&mut T` to the same value at once: aliased mutable access (a data race on real threads)
                self.note("C14", "aliased-mutable-access", Some(obj), Some(op), d.clone());
                // the operation that was intruded upon was promised exclusive access as well
                let victim_kind = self.with(|i| i.ops.iter().enumerate().filter(|(aid, a)| *aid != op && a.obj == obj && a.start != 0 && !a.ended() && !a.cancelled).map(|(_, a)| a.kind).next());
                match victim_kind {
                    Some(Kind::Sync) => self.note("C04", "not-exclusive", Some(obj), Some(op), d.clone()),
                    Some(Kind::TrySync) => self.note("C09", "not-exclusive", Some(obj), Some(op), d.clone()),
                    Some(Kind::PipeItem) => self.note("C11", "not-exclusive", Some(obj), Some(op), d.clone()),
                    _ => {}
                }
            }
            if p_ == "C01" || p_ == "C02" {
                let extra = match kind {
                    Kind::Sync => Some("C04"),
                    Kind::TrySync => Some("C09"),
                    Kind::FutSync => Some("C08"),
                    Kind::PipeItem => Some("C11"),
                    _ => None,
                };
                if let Some(e) = extra {
                    self.note(e, if p_ == "C01" { "not-exclusive" } else { "not-in-order" }, Some(obj), Some(op), d.clone());
                }
                // the operation that was overlapped: a cancelled future_sync whose future should be gone
                if p_ == "C01" && c == "overlap" {
                    let victim_fs = self.with(|i| i.ops.iter().enumerate().any(|(aid, a)| aid != op && a.obj == obj && a.kind == Kind::FutSync && a.start != 0 && !a.ended()));
                    if victim_fs && kind != Kind::FutSync {
                        self.note("C08", "later-operation-started-inside-slot", Some(obj), Some(op), d.clone());
                    }
                }
                let _ = occ_cancelled_futsync;
            }
            self.fail(p_, c, Some(obj), Some(op), d);
        }
    }

    /// A step inside an operation touches the protected value
    pub fn touch(&self, op: OpId, p: &mut Payload) {
        let mut bad = None;
        self.with(|i| {
            let obj = i.ops[op].obj;
            let ob = &mut i.objs[obj];
            if ob.dead {
                bad = Some(("C05", "use-after-destroy", format!("operation #{} touched o{} after its value was destroyed", op, obj)));
            } else if ob.occupant != Some(op) {
                bad = Some(("C01", "overlap", format!("operation #{} touched o{} while the occupant is {:?}", op, obj, ob.occupant)));
            } else {
                ob.log_len += 1;
            }
        });
        if let Some((pr, c, d)) = bad {
            let obj = self.with(|i| i.ops[op].obj);
            if c == "use-after-destroy" {
                self.note("C14", "value-used-after-free", Some(obj), Some(op), d.clone());
            }
            self.fail(pr, c, Some(obj), Some(op), d);
        }
        p.log.push(op as u32);
    }

    /// Every step of an op checks that it still owns the object and that its frame is alive
    pub fn check_inside(&self, op: OpId) {
        let mut bad = None;
        self.with(|i| {
            let o = &i.ops[op];
            let ob = &i.objs[o.obj];
            if ob.dead {
                bad = Some(("C05", "use-after-destroy", format!("operation #{} is executing after the value of o{} was destroyed", op, o.obj)));
            } else if ob.occupant != Some(op) {
                bad = Some(("C01", "overlap", format!("operation #{} is executing on o{} while the occupant is {:?}", op, o.obj, ob.occupant)));
            } else if o.kind.is_sync_like() && o.ret != 0 {
                bad = Some(("C14", "closure-after-return", format!("closure of #{} is executing after its call returned", op)));
            } else if o.token_drops > 0 {
                bad = Some(("C14", "run-after-release", format!("closure of #{} is executing after its storage was released", op)));
            }
            let contended = i.ops.iter().enumerate().any(|(aid, a)| aid != op && a.obj == o.obj && a.inv != 0 && !a.ended() && !a.cancelled && !a.busy);
            if contended {
                i.stats.yields_under_contention += 1;
            }
        });
        if let Some((pr, c, d)) = bad {
            let obj = self.with(|i| i.ops[op].obj);
            self.fail(pr, c, Some(obj), Some(op), d);
        }
    }

    /// The closure / future of `op` finished (or, for future ops, was dropped: `cancelled`)
    pub fn end(&self, op: OpId, cancelled: bool) {
        let mut bad = None;
        self.with(|i| {
            i.clock += 1;
            let c = i.clock;
            let obj = i.ops[op].obj;
            if i.objs[obj].occupant != Some(op) {
                bad = Some(format!("operation #{} ended on o{} while the occupant is {:?}", op, obj, i.objs[obj].occupant));
            }
            i.objs[obj].occupant = None;
            i.objs[obj].last_progress = c;
            let o = &mut i.ops[op];
            o.end = c;
            o.waiting_gate = None;
            if cancelled {
                o.cancelled = true;
            }
        });
        self.hist(|| format!("END   #{}{}", op, if cancelled { " (cancelled)" } else { "" }));
        self.wake_batons();
        if let Some(d) = bad {
            let obj = self.with(|i| i.ops[op].obj);
            self.fail("C01", "overlap", Some(obj), Some(op), d);
        }
    }

    /// The storage of the closure of `op` was released (token captured by the closure dropped)
    pub fn token_dropped(&self, op: OpId) {
        let mut bad = None;
        self.with(|i| {
            let o = &mut i.ops[op];
            o.token_drops += 1;
            if o.token_drops > 1 {
                bad = Some(("C14", "double-release", format!("closure storage of #{} released {} times", op, o.token_drops)));
            } else if o.kind.is_sync_like() && o.ret != 0 {
                bad = Some(("C14", "closure-alive-after-return", format!("closure of #{} was still alive after its call returned", op)));
            } else if o.start != 0 && o.end == 0 && !o.panicked && o.kind != Kind::FutSync {
                bad = Some(("C14", "released-while-running", format!("closure storage of #{} released while it is running", op)));
            }
        });
        if let Some((pr, c, d)) = bad {
            let obj = self.with(|i| i.ops[op].obj);
            self.fail(pr, c, Some(obj), Some(op), d);
        }
    }

    pub fn payload_dropped(&self, obj: usize) {
        let mut bad = None;
        // only a Desync promises to wait for its work before destroying the value; on a bare JobQueue the
        // harness-owned cell simply goes away with the last closure that refers to it
        let desync_level = self.case.cfg.level == crate::case::Level::Desync;
        self.with(|i| {
            i.clock += 1;
            let c = i.clock;
            let ob = &mut i.objs[obj];
            ob.drops += 1;
            ob.dead = true;
            ob.died_at = c;
            if ob.drops > 1 {
                bad = Some(("C05", "double-destroy", format!("value of o{} destroyed {} times", obj, ob.drops)));
            } else if let Some(occ) = ob.occupant {
                bad = Some(("C05", "destroyed-while-in-use", format!("value of o{} destroyed while operation #{} is executing", obj, occ)));
            } else if desync_level {
                for (aid, a) in i.ops.iter().enumerate() {
                    if a.obj == obj && a.accepted && !a.ended() && !a.cancelled && !a.busy && !a.panicked && a.kind != Kind::Suspend && a.kind != Kind::Pipe && a.kind != Kind::PipeIn && a.kind != Kind::Attempt {
                        // future_sync ops that were never started and whose future is gone are cancelled, not pending
                        if a.kind == Kind::FutSync && a.fut_dropped {
                            continue;
                        }
                        bad = Some(("C05", "destroyed-before-work-finished", format!("value of o{} destroyed although operation #{} ({:?}), accepted at t={}, has not finished", obj, aid, a.kind, a.ret)));
                        break;
                    }
                }
            }
        });
        self.hist(|| format!("DESTROY value of o{}", obj));
        if let Some((pr, c, d)) = bad {
            if c == "double-destroy" {
                self.note("C14", "value-freed-twice", Some(obj), None, d.clone());
            }
            if c == "destroyed-while-in-use" {
                self.note("C14", "value-freed-while-borrowed", Some(obj), None, d.clone());
            }
            if c == "destroyed-before-work-finished" && self.case.cfg.keep_going_after_early_destroy {
                // keep going: if the pending operation later runs on the freed value, the use-after-free oracle fires
                self.note(pr, c, Some(obj), None, d);
                return;
            }
            self.fail(pr, c, Some(obj), None, d);
        }
    }

    pub fn set_stage(&self, caller: usize, stage: Stage) {
        self.with(|i| {
            if i.callers[caller].stage != stage {
                i.callers[caller].stage_seq += 1;
            }
            i.callers[caller].stage = stage;
        });
    }

    /// Fires every waker that was ever registered with the gate again (stale / spurious wake-ups)
    pub fn rewake(&self, g: usize) {
        let wakers: Vec<Waker> = self.with(|i| {
            if !i.gates[g].history.is_empty() {
                i.stats.stale_wakes += 1;
            }
            i.gates[g].history.clone()
        });
        self.hist(|| format!("re-wake {} stale waker(s) of gate g{}", wakers.len(), g));
        for wk in wakers {
            wk.wake();
        }
    }

    /// Drops the wakers the shadow state holds (root teardown, inside the execution)
    pub fn clear_wakers(&self) {
        let (a, b, c): (Vec<Vec<Waker>>, Vec<Vec<Waker>>, Vec<Option<Waker>>) = self.with(|i| {
            (i.gates.iter_mut().map(|g| std::mem::take(&mut g.wakers).into_iter().map(|(_, w)| w).collect()).collect(), i.gates.iter_mut().map(|g| std::mem::take(&mut g.history)).collect(), i.streams.iter_mut().map(|s| s.waker.take()).collect())
        });
        drop(a);
        drop(b);
        drop(c);
    }

    pub fn open_gate(&self, g: usize) {
        let (wakers, double) = self.with(|i| {
            i.clock += 1;
            let c = i.clock;
            let gs = &mut i.gates[g];
            if gs.open {
                return (vec![], false);
            }
            gs.open = true;
            gs.opened_at = c;
            let fin = i.final_stage;
            let gs = &mut i.gates[g];
            gs.opened_in_final = fin;
            let now = if rt::in_task() { rt::steps() } else { 0 };
            let mut woke = false;
            let mut racy = false;
            for o in i.ops.iter() {
                if o.waiting_gate == Some(g) && !o.ended() {
                    woke = true;
                    if now.saturating_sub(o.suspend_step) <= 8 {
                        racy = true;
                    }
                }
            }
            if woke {
                i.stats.gate_wake_while_running += 1;
            }
            if racy {
                i.stats.racy_wakes += 1;
            }
            let gs = &mut i.gates[g];
            (std::mem::take(&mut gs.wakers).into_iter().map(|(_, w)| w).collect::<Vec<Waker>>(), false)
        });
        let double = double || self.case.cfg.double_wake;
        self.hist(|| format!("open gate g{} ({} wakers)", g, wakers.len()));
        // classification: was any waiting op's queue being run at this moment?
        for wk in wakers {
            if double {
                wk.wake_by_ref();
            }
            wk.wake();
        }
    }
}
