//! proptest strategies: one weighted grammar, specialised per property by a `Profile`.
//! Index fields are generated raw (0..=255) and scaled by `norm::normalize`.

use crate::case::*;
use proptest::collection::vec;
use proptest::prelude::*;
use proptest::strategy::Union;

#[derive(Clone, Debug)]
pub struct OpW {
    pub desync: u32,
    pub sync: u32,
    pub trysync: u32,
    pub futdesync: u32,
    pub futsync: u32,
    pub after: u32,
    pub await_: u32,
    pub syncwait: u32,
    pub pollonce: u32,
    pub dropfut: u32,
    pub detach: u32,
    pub release: u32,
    pub opengate: u32,
    pub rewake: u32,
    pub waitfor: u32,
    pub yield_: u32,
    pub suspend: u32,
    pub awaitsuspend: u32,
    pub resume: u32,
    pub dropresumer: u32,
    pub pipein: u32,
    pub pipe: u32,
    pub consume: u32,
    pub droppipe: u32,
    pub awaitinline: u32,
    pub awaitjoin: u32,
    pub consumeinline: u32,
    pub setdepth: u32,
}

impl Default for OpW {
    fn default() -> OpW {
        OpW { desync: 10, sync: 8, trysync: 4, futdesync: 6, futsync: 4, after: 3, await_: 8, syncwait: 2, pollonce: 3, dropfut: 2, detach: 1, release: 1, opengate: 4, rewake: 1, waitfor: 2, yield_: 2, suspend: 0, awaitsuspend: 0, resume: 0, dropresumer: 0, pipein: 0, pipe: 0, consume: 0, droppipe: 0, awaitinline: 2, consumeinline: 0, setdepth: 0, awaitjoin: 2 }
    }
}

#[derive(Clone, Debug)]
pub struct StepW {
    pub touch: u32,
    pub yield_: u32,
    pub nested_desync: u32,
    pub nested_sync: u32,
    pub nested_futdesync: u32,
    pub release: u32,
    pub opengate: u32,
    pub blockongate: u32,
    pub awaitgate: u32,
    pub awaitfutsync: u32,
    pub awaitfutdesync: u32,
    pub panic: u32,
    pub selfwake: u32,
}

impl Default for StepW {
    fn default() -> StepW {
        StepW { touch: 8, yield_: 8, nested_desync: 2, nested_sync: 1, nested_futdesync: 1, release: 0, opengate: 1, blockongate: 0, awaitgate: 6, awaitfutsync: 1, awaitfutdesync: 1, panic: 0, selfwake: 2 }
    }
}

#[derive(Clone, Copy, Debug, PartialEq)]
pub enum Shape {
    Plain,
    /// C10: phase 1 keeps some objects blocked on closed gates, the others must finish
    Gated,
    /// C15: one op panics in phase 1; phase 2 attempts + healthy program + capacity probe
    Panic,
    /// C17: pool maximum changes between phases
    PoolChange,
    /// C13: a suspend / await / (work) / resume sequence is spliced into one caller of an ordinary program
    Suspend,
    /// C16: a pipe / (work) / drop-output sequence is spliced into one caller; producers rarely close
    PipeDrop,
    /// C12: a pipe / consume... sequence is spliced into one caller; producers push bursts and close
    PipeConsume,
    /// C04: a future that is polled once and then dropped (queue left waiting for a poll) plus syncs on that object,
    /// some of them from inside pool jobs, are spliced into an ordinary program
    AbandonedPoll,
    /// C11: a pipe_in is spliced into one caller; producers push bursts with yields in between
    PipeIn,
}

#[derive(Clone, Debug)]
pub struct Profile {
    pub pool: (u8, u8),
    pub objects: (u8, u8),
    pub callers: (usize, usize),
    pub ops: (usize, usize),
    pub gates: (u8, u8),
    pub streams: (u8, u8),
    pub wakers: (usize, usize),
    pub body: (usize, usize),
    pub opw: OpW,
    pub stepw: StepW,
    pub queue_level_pct: u32,
    pub root_holds_pct: u32,
    pub spurious_pct: u32,
    pub unlock_points_pct: u32,
    pub double_wake_pct: u32,
    pub pre_open_pct: u32,
    pub shape: Shape,
    pub sched_bytes: usize,
    pub keep_going_after_early_destroy: bool,
    /// share (in percent) of a caller's program segments that are a whole future lifecycle (create, poll / wake / queue behind, finish)
    pub lifecycle_pct: u32,
    /// share (in percent) of those lifecycles in which the owner gives up its handle on the object right after it has created the
    /// future (what remains of the object's life is then decided by the other owners while this future is polled, woken, abandoned)
    pub lifecycle_release_pct: u32,
}

impl Default for Profile {
    fn default() -> Profile {
        Profile {
            pool: (0, 3),
            objects: (1, 3),
            callers: (1, 4),
            ops: (1, 6),
            gates: (0, 3),
            streams: (0, 0),
            wakers: (0, 2),
            body: (0, 3),
            opw: OpW::default(),
            stepw: StepW::default(),
            queue_level_pct: 20,
            root_holds_pct: 60,
            spurious_pct: 15,
            unlock_points_pct: 30,
            double_wake_pct: 25,
            pre_open_pct: 20,
            shape: Shape::Plain,
            sched_bytes: 300,
            keep_going_after_early_destroy: false,
            lifecycle_release_pct: 0,
            lifecycle_pct: 12,
        }
    }
}

fn pct(p: u32) -> BoxedStrategy<bool> {
    if p == 0 {
        Just(false).boxed()
    } else if p >= 100 {
        Just(true).boxed()
    } else {
        prop::bool::weighted(p as f64 / 100.0).boxed()
    }
}

fn union<T: std::fmt::Debug + 'static>(alts: Vec<(u32, BoxedStrategy<T>)>) -> BoxedStrategy<T> {
    let alts: Vec<(u32, BoxedStrategy<T>)> = alts.into_iter().filter(|(w, _)| *w > 0).collect();
    Union::new_weighted(alts).boxed()
}

fn leaf_steps(w: &StepW, len: (usize, usize), in_future: bool) -> BoxedStrategy<Vec<Step>> {
    let mut alts: Vec<(u32, BoxedStrategy<Step>)> = vec![(w.touch.max(1), Just(Step::Touch).boxed()), (w.yield_, Just(Step::Yield).boxed()), (w.opengate, any::<u8>().prop_map(|g| Step::OpenGate { g }).boxed())];
    if in_future {
        alts.push((w.awaitgate, any::<u8>().prop_map(|g| Step::AwaitGate { g }).boxed()));
        alts.push((w.selfwake, Just(Step::SelfWake).boxed()));
    } else {
        alts.push((w.blockongate, any::<u8>().prop_map(|g| Step::BlockOnGate { g }).boxed()));
    }
    vec(union(alts), len.0..=len.1).boxed()
}

fn steps(w: &StepW, len: (usize, usize), in_future: bool, depth: usize) -> BoxedStrategy<Vec<Step>> {
    if depth == 0 {
        return leaf_steps(w, len, in_future);
    }
    let inner_plain = steps(w, (0, 2), false, depth - 1);
    let inner_fut = steps(w, (0, 2), true, depth - 1);
    let mut alts: Vec<(u32, BoxedStrategy<Step>)> = vec![
        (w.touch.max(1), Just(Step::Touch).boxed()),
        (w.yield_, Just(Step::Yield).boxed()),
        (w.opengate, any::<u8>().prop_map(|g| Step::OpenGate { g }).boxed()),
        (w.release, any::<u8>().prop_map(|o| Step::Release { o }).boxed()),
        (w.panic, Just(Step::Panic).boxed()),
        (w.nested_desync, (any::<u8>(), inner_plain.clone()).prop_map(|(o, body)| Step::NestedDesync { o, body, id: 0 }).boxed()),
        (w.nested_sync, (any::<u8>(), inner_plain.clone()).prop_map(|(o, body)| Step::NestedSync { o, body, id: 0 }).boxed()),
        (w.nested_futdesync, (any::<u8>(), inner_fut.clone()).prop_map(|(o, body)| Step::NestedFutDesync { o, body, id: 0 }).boxed()),
    ];
    if in_future {
        alts.push((w.awaitgate, any::<u8>().prop_map(|g| Step::AwaitGate { g }).boxed()));
        alts.push((w.selfwake, Just(Step::SelfWake).boxed()));
        alts.push((w.awaitfutsync, (any::<u8>(), inner_fut.clone()).prop_map(|(o, body)| Step::AwaitFutSync { o, body, id: 0 }).boxed()));
        alts.push((w.awaitfutdesync, (any::<u8>(), inner_fut.clone()).prop_map(|(o, body)| Step::AwaitFutDesync { o, body, id: 0 }).boxed()));
    } else {
        alts.push((w.blockongate, any::<u8>().prop_map(|g| Step::BlockOnGate { g }).boxed()));
    }
    vec(union(alts), len.0..=len.1).boxed()
}

pub fn op_strategy(p: &Profile) -> BoxedStrategy<Op> {
    let w = &p.opw;
    let plain = steps(&p.stepw, p.body, false, 2);
    let fut = steps(&p.stepw, p.body, true, 2);
    let pipe_body = vec(union(vec![(4, Just(Step::Touch).boxed()), (3, Just(Step::Yield).boxed()), (2, any::<u8>().prop_map(|g| Step::AwaitGate { g }).boxed()), (1, Just(Step::SelfWake).boxed())]), 0..=2).boxed();
    let u8s = any::<u8>();
    union(vec![
        (w.desync, (u8s, plain.clone()).prop_map(|(o, body)| Op::Desync { o, body, id: 0 }).boxed()),
        (w.sync, (u8s, plain.clone()).prop_map(|(o, body)| Op::Sync { o, body, id: 0 }).boxed()),
        (w.trysync, (u8s, plain.clone(), prop::bool::ANY).prop_map(|(o, body, probe)| Op::TrySync { o, body, probe, id: 0 }).boxed()),
        (w.futdesync, (u8s, fut.clone(), u8s).prop_map(|(o, body, slot)| Op::FutDesync { o, body, slot, id: 0 }).boxed()),
        (w.futsync, (u8s, fut.clone(), u8s).prop_map(|(o, body, slot)| Op::FutSync { o, body, slot, id: 0 }).boxed()),
        (w.after, (u8s, u8s, plain.clone(), u8s).prop_map(|(o, g, body, slot)| Op::After { o, g, body, slot, id: 0 }).boxed()),
        (w.await_, u8s.prop_map(|slot| Op::Await { slot }).boxed()),
        (w.syncwait, u8s.prop_map(|slot| Op::SyncWait { slot }).boxed()),
        (w.pollonce, u8s.prop_map(|slot| Op::PollOnce { slot }).boxed()),
        (w.dropfut, u8s.prop_map(|slot| Op::DropFut { slot }).boxed()),
        (w.detach, u8s.prop_map(|slot| Op::Detach { slot }).boxed()),
        (w.release, u8s.prop_map(|o| Op::Release { o }).boxed()),
        (w.opengate, u8s.prop_map(|g| Op::OpenGate { g }).boxed()),
        (w.rewake, u8s.prop_map(|g| Op::Rewake { g }).boxed()),
        (w.waitfor, (u8s, u8s, prop::bool::ANY).prop_map(|(caller, idx, e)| Op::WaitFor { caller, idx, ev: if e { Ev::End } else { Ev::Ret } }).boxed()),
        (w.yield_, Just(Op::Yield).boxed()),
        (w.suspend, (u8s, u8s).prop_map(|(o, slot)| Op::Suspend { o, slot, id: 0 }).boxed()),
        (w.awaitsuspend, u8s.prop_map(|slot| Op::AwaitSuspend { slot }).boxed()),
        (w.resume, u8s.prop_map(|slot| Op::Resume { slot }).boxed()),
        (w.dropresumer, u8s.prop_map(|slot| Op::DropResumer { slot }).boxed()),
        (w.pipein, (u8s, u8s, pipe_body.clone()).prop_map(|(o, s, body)| Op::PipeIn { o, s, body, id: 0 }).boxed()),
        (w.pipe, (u8s, u8s, u8s, pipe_body.clone(), u8s).prop_map(|(o, s, depth, body, slot)| Op::Pipe { o, s, depth, body, slot, id: 0 }).boxed()),
        (w.consume, (u8s, u8s).prop_map(|(slot, k)| Op::Consume { slot, k }).boxed()),
        (w.awaitinline, u8s.prop_map(|slot| Op::AwaitInline { slot }).boxed()),
        (w.awaitjoin, (u8s, u8s).prop_map(|(a, b)| Op::AwaitJoin { a, b }).boxed()),
        (w.setdepth, (u8s, u8s).prop_map(|(slot, depth)| Op::SetDepth { slot, depth }).boxed()),
        (w.consumeinline, (u8s, prop::bool::weighted(0.4)).prop_map(|(slot, drop_on_wake)| Op::ConsumeInline { slot, drop_on_wake }).boxed()),
        (w.droppipe, u8s.prop_map(|slot| Op::DropPipe { slot }).boxed()),
    ])
}

pub fn sched_strategy(bytes: usize) -> BoxedStrategy<Sched> {
    let walk = (prop_oneof![Just(0u8), Just(64u8), Just(128u8), Just(192u8), Just(224u8)], vec(any::<u8>(), 0..=bytes), prop::bool::ANY).prop_map(|(stay, bytes, t)| Sched::Walk { stay, bytes, tail: if t { Tail::RoundRobin } else { Tail::Stay } });
    let pct_s = (vec(any::<u8>(), 0..=10), vec((0u8..10, 0u16..72, 0u8..40), 0..=6)).prop_map(|(prio, changes)| Sched::Pct { prio, changes });
    let delay = (vec((0u8..10, 0u16..72, any::<u8>()), 0..=6), prop::bool::ANY).prop_map(|(points, rr)| Sched::Delay { points, rr });
    prop_oneof![4 => walk, 3 => pct_s, 3 => delay].boxed()
}

pub fn cfg_strategy(p: &Profile) -> BoxedStrategy<Cfg> {
    let keep_going = p.keep_going_after_early_destroy;
    (
        (p.pool.0..=p.pool.1, p.objects.0..=p.objects.1, p.gates.0..=p.gates.1, p.streams.0..=p.streams.1),
        pct(p.queue_level_pct),
        pct(p.unlock_points_pct),
        (pct(p.spurious_pct), vec(0u16..400, 1..=3)),
        (pct(p.pre_open_pct), vec(any::<u8>(), 1..=2)),
        pct(p.root_holds_pct),
        pct(p.double_wake_pct),
        pct(40),
        pct(50),
        pct(15),
        pct(50),
        (pct(40), pct(30), 1u8..=2, pct(15), pct(30)),
    )
        .prop_map(move |((pool, objects, gates, streams), q, unlock_points, (sp, spv), (po, pov), root_holds, double_wake, gate_keep_all, stream_always_register, unwinding_drops, consumer_probe_polls, (chained_streams, ssw, sswn, guard_syncs, stream_wakes_on_drop))| Cfg {
            pool,
            objects,
            gates,
            streams,
            level: if q { Level::Queue } else { Level::Desync },
            unlock_points,
            spurious: if sp { spv } else { vec![] },
            pre_open: if po { pov } else { vec![] },
            root_holds,
            double_wake,
            gate_keep_all,
            stream_always_register,
            keep_going_after_early_destroy: keep_going,
            despawn_without_quiescence: false,
            unwinding_drops,
            consumer_probe_polls,
            chained_streams,
            stream_self_wakes: if ssw { sswn } else { 0 },
            guard_syncs,
            stream_wakes_on_drop,
            payload_bomb: false,
            unwinding_attempts: false,
        })
        .boxed()
}

fn wakers_strategy(p: &Profile) -> BoxedStrategy<Vec<Vec<WOp>>> {
    let wop = prop_oneof![2 => Just(WOp::Yield), 3 => any::<u8>().prop_map(|g| WOp::Open { g }), 1 => any::<u8>().prop_map(|g| WOp::Rewake { g })];
    vec(vec(wop, 1..=4), p.wakers.0..=p.wakers.1).boxed()
}

fn producers_strategy(p: &Profile) -> BoxedStrategy<Vec<Vec<POp>>> {
    if p.streams.1 == 0 {
        return Just(vec![]).boxed();
    }
    let pop = prop_oneof![4 => Just(POp::Yield), 8 => (1u8..=4).prop_map(|n| POp::Push { n }), 1 => (33u8..=36).prop_map(|n| POp::Push { n }), 6 => Just(POp::PushDuring), 2 => Just(POp::Close)];
    vec(vec(pop, 0..=5), p.streams.1 as usize).boxed()
}

/// One future taken through its life by its owner: created with a body that waits for a gate, then polled by hand, woken,
/// given company in the queue, and finally awaited, waited for synchronously, dropped, detached or just left. The raw slot,
/// object and gate values are shared by the whole chain, so normalisation maps them to the same slot, object and gate.
fn lifecycle(p: &Profile) -> BoxedStrategy<Vec<Op>> {
    let w = p.opw.clone();
    let u8s = any::<u8>();
    let small_fut = leaf_steps(&p.stepw, (0, 2), true);
    let small_plain = leaf_steps(&p.stepw, (0, 1), false);
    let kind = union(vec![(w.futdesync.max(1), Just(0u8).boxed()), (w.futsync, Just(1u8).boxed()), (w.after, Just(2u8).boxed())]);
    let mid = (0u8..11, small_plain.clone()).boxed();
    let term = prop_oneof![4 => Just(0u8), 3 => Just(1u8), 2 => Just(2u8), 1 => Just(3u8), 1 => Just(4u8), 2 => Just(5u8)];
    // (one in ten lifecycles starts behind a backlog of plain operations that is just longer than a plausible batch size)
    let backlog = prop_oneof![2700 => Just(0usize), 100 => 33usize..=36, 100 => 65usize..=68, 100 => 130usize..=133, 1 => 4098usize..=4100];
    let release = prop::bool::weighted(p.lifecycle_release_pct.min(100) as f64 / 100.0);
    ((u8s, u8s, u8s), kind, (small_fut.clone(), small_fut, small_plain), vec(mid, 0..=4), term, (backlog, release))
        .prop_map(|((o, slot, g), kind, (pre, post, plain), mids, term, (backlog, release))| {
            let mut out = vec![];
            for _ in 0..backlog {
                out.push(Op::Desync { o, body: vec![], id: 0 });
            }
            let mut body = pre;
            body.push(Step::AwaitGate { g });
            body.extend(post);
            out.push(match kind {
                0 => Op::FutDesync { o, body, slot, id: 0 },
                1 => Op::FutSync { o, body, slot, id: 0 },
                _ => Op::After { o, g, body: plain, slot, id: 0 },
            });
            if release {
                out.push(Op::Release { o });
            }
            for (m, b) in mids {
                out.push(match m {
                    0..=2 => Op::PollOnce { slot },
                    3..=5 => Op::OpenGate { g },
                    6..=7 => Op::Yield,
                    8..=9 => Op::Desync { o, body: b, id: 0 },
                    _ => Op::Rewake { g },
                });
            }
            if term == 5 {
                // a second future on the same object, and one task awaiting both with one waker
                let slot2 = slot.wrapping_add(64);
                out.push(Op::FutDesync { o, body: vec![Step::Touch], slot: slot2, id: 0 });
                out.push(Op::AwaitJoin { a: slot, b: slot2 });
            }
            match term {
                0 => out.push(Op::Await { slot }),
                1 => out.push(Op::SyncWait { slot }),
                2 => out.push(Op::DropFut { slot }),
                3 => out.push(Op::Detach { slot }),
                _ => {}
            }
            out
        })
        .boxed()
}

pub fn phase_strategy(p: &Profile) -> BoxedStrategy<Phase> {
    let w = &p.opw;
    let program = if p.lifecycle_pct > 0 && w.pollonce > 0 && w.futdesync + w.futsync + w.after > 0 {
        let segment = union(vec![(100 - p.lifecycle_pct.min(99), op_strategy(p).prop_map(|op| vec![op]).boxed()), (p.lifecycle_pct, lifecycle(p))]);
        let max = p.ops.1;
        vec(segment, p.ops.0..=p.ops.1).prop_map(move |segs| { let long = segs.iter().any(|s| s.len() > 12); let mut v: Vec<Op> = segs.into_iter().flatten().collect(); if !long { v.truncate(max + 6); } v }).boxed()
    } else {
        vec(op_strategy(p), p.ops.0..=p.ops.1).boxed()
    };
    let callers = vec(program, p.callers.0..=p.callers.1);
    (callers, wakers_strategy(p), producers_strategy(p)).prop_map(|(callers, wakers, producers)| Phase { callers, wakers, producers, ..Default::default() }).boxed()
}

pub fn case_strategy(p: &Profile) -> BoxedStrategy<Case> {
    let p = p.clone();
    match p.shape {
        Shape::Plain => (cfg_strategy(&p), phase_strategy(&p), sched_strategy(p.sched_bytes)).prop_map(|(cfg, phase, sched)| Case { cfg, phases: vec![phase], sched }).boxed(),
        Shape::Gated => crate::profiles::gated_case(&p),
        Shape::Panic => crate::profiles::panic_case(&p),
        Shape::PoolChange => crate::profiles::poolchange_case(&p),
        Shape::Suspend => crate::profiles::suspend_case(&p),
        Shape::PipeDrop => crate::profiles::pipedrop_case(&p, true),
        Shape::PipeConsume => crate::profiles::pipedrop_case(&p, false),
        Shape::PipeIn => crate::profiles::pipein_case(&p),
        Shape::AbandonedPoll => {
            let mut plain = p.clone();
            plain.shape = Shape::Plain;
            prop_oneof![6 => case_strategy(&plain), 4 => crate::profiles::abandoned_poll_case(&p)].boxed()
        }
    }
}
