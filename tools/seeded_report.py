#!/usr/bin/env python3
"""usage: tools/seeded_report.py <quick-log> [<thorough-log>]   (logs written by tools/run_seeded.sh)
Updates seeded/<id>/meta.json with what the framework did against the change and writes seeded/RESULTS.md."""
import json, re, sys, os, glob
def parse(path):
    out={}
    if not path or not os.path.exists(path): return out
    for l in open(path):
        m=re.match(r'(C\d+-\d+) check=([Casn\d:]+) exit=(\d+) \| (C\d+) (quick|thorough): (\d+) cases, (\d+) distinct non-trivial other (\{.*?\}) \|\s*(.*)',l)
        if m:
            if out.get(m.group(1),{}).get('exit')==1: continue
            out[m.group(1)]={'check':m.group(2),'exit':int(m.group(3)),'tier':m.group(5),'cases':int(m.group(6)),'other':m.group(8),'first_violation':m.group(9).strip()[:160]}
        elif re.match(r'(C\d+-\d+) check=([Casn\d:]+) exit=(\d+) \|\s*\|',l):
            m2=re.match(r'(C\d+-\d+) check=([Casn\d:]+) exit=(\d+) \|\s*\|\s*(.*)',l)
            if out.get(m2.group(1),{}).get('exit')==1: continue
            out[m2.group(1)]={'check':m2.group(2),'exit':int(m2.group(3)),'tier':'quick','cases':None,'other':'','first_violation':(m2.group(4).strip() or 'the search process died after the violation had been recorded (memory corrupted by the change); reported from the unshrunk replay')[:160]}
        elif 'APPLY-FAILED' in l or 'BUILD-FAILED' in l:
            out[l.split()[0]]={'error':l.strip()}
    return out
q=parse(sys.argv[1]); t=parse(sys.argv[2]) if len(sys.argv)>2 else {}
rows=[]
for d in sorted(glob.glob('/verif/seeded/*/')):
    sid=os.path.basename(d.rstrip('/'))
    mp=d+'meta.json'
    meta=json.load(open(mp)) if os.path.exists(mp) else {}
    r=q.get(sid,{}); rt=t.get(sid,{})
    caught = 'quick' if r.get('exit')==1 else ('thorough' if rt.get('exit')==1 else 'no')
    use = r if r.get('exit')==1 else (rt if rt.get('exit')==1 else r)
    meta['confirmed_here']=meta.get('confirmed_here') or ("re-run in the sub-agent's scratch worktree by tools/verify_seeded.sh: patch applies on a clean checkout; "
        "repository suite (nextest, 8 threads) with the change applied: 64 passed + the always-failing panicking_panics_with_future_queues (known-flaky tests ignored); "
        "demo run twice with the change (failed both times) and twice without (passed both times)")
    if meta.get('neutralised_by'):
        meta['framework']={'caught_by_own_property_check':'not applicable any more','note':meta['neutralised_by']}
        json.dump(meta,open(mp,'w'),indent=1)
        rows.append((sid,meta.get('title','')[:110],'neutralised by a repair (no longer breaks the property)',None,meta['neutralised_by'][:90]))
        continue
    if meta.get('framework_manual'):
        fm=meta['framework_manual']
        meta['framework']=fm
        json.dump(meta,open(mp,'w'),indent=1)
        rows.append((sid,meta.get('title','')[:110],fm.get('tier','quick')+' ('+fm.get('by','')+')',fm.get('cases_until_detection'),(fm.get('first_violation_line') or '')[:90]))
        continue
    meta['framework']={'caught_by_own_property_check':caught,'check':use.get('check'),'cases_until_detection':use.get('cases'),'first_violation_line':use.get('first_violation'),'other_oracles_that_fired':use.get('other')}
    json.dump(meta,open(mp,'w'),indent=1)
    rows.append((sid,meta.get('title','')[:110],caught,use.get('cases'),(use.get('first_violation') or '')[:90]))
with open('/verif/seeded/RESULTS.md','w') as f:
    f.write("# Seeded changes: what the checks do with them\n\nEach row: the change (seeded/<id>/patch.diff), whether the quick / thorough tier of the check of the property it breaks reports it, "
            "after how many generated cases, and the first violation line. Regenerate with tools/run_seeded.sh + tools/seeded_report.py.\n\n")
    f.write("| id | change | caught by own check | cases | first violation |\n|---|---|---|---|---|\n")
    for r in rows: f.write("| %s | %s | %s | %s | %s |\n"%r)
    live=[r for r in rows if not str(r[2]).startswith('neutralised')]
    n=len(live); c=sum(1 for r in live if r[2]!='no')
    f.write("\n%d of %d caught (quick: %d).\n"%(c,n,sum(1 for r in rows if str(r[2]).startswith('quick'))))
print(open('/verif/seeded/RESULTS.md').read()[-300:])
