//! vsched: a deterministic, schedule-controlled replacement for the std primitives used by `desync`.
//!
//! See /verif/DESIGN.md section 2.2.

pub mod rt;
pub mod sync;
pub mod thread;

pub use rt::{exec_local, drop_exec_locals};
