//! `std::sync`-compatible primitives served by the controlled runtime.
//!
//! Each primitive implements a subset of the behaviours std documents for its counterpart
//! (no fairness, no hand-off, lost notifications, unspecified notify_one target, poisoning).

use crate::rt::{self, BlockKind};
use std::cell::{Cell, UnsafeCell};
use std::collections::VecDeque;
use std::fmt;
use std::ops::{Deref, DerefMut};

pub use std::sync::atomic;
pub use std::sync::{Arc, LockResult, PoisonError, TryLockError, TryLockResult, Weak};

const FREE: usize = usize::MAX;
/// owner id used when a mutex is locked from outside any execution
const OUTSIDE: usize = usize::MAX - 1;

pub struct Mutex<T: ?Sized> {
    owner: Cell<usize>,
    poisoned: Cell<bool>,
    try_locked: Cell<bool>,
    data: UnsafeCell<T>,
}

unsafe impl<T: ?Sized + Send> Send for Mutex<T> {}
unsafe impl<T: ?Sized + Send> Sync for Mutex<T> {}

pub struct MutexGuard<'a, T: ?Sized + 'a> {
    mutex: &'a Mutex<T>,
    was_panicking: bool,
}

impl<T> Mutex<T> {
    pub fn new(t: T) -> Mutex<T> {
        Mutex { owner: Cell::new(FREE), poisoned: Cell::new(false), try_locked: Cell::new(false), data: UnsafeCell::new(t) }
    }

    pub fn into_inner(self) -> LockResult<T> {
        let poisoned = self.poisoned.get();
        let v = self.data.into_inner();
        if poisoned {
            Err(PoisonError::new(v))
        } else {
            Ok(v)
        }
    }
}

impl<T: ?Sized> Mutex<T> {
    #[inline]
    fn key(&self) -> usize {
        &self.owner as *const _ as usize
    }

    fn me() -> usize {
        if rt::in_task() {
            rt::current()
        } else {
            OUTSIDE
        }
    }

    /// acquire without a preceding scheduling point
    fn acquire(&self) {
        let me = Self::me();
        loop {
            if self.owner.get() == FREE {
                self.owner.set(me);
                return;
            }
            if me == OUTSIDE {
                panic!("vsched: mutex contended outside an execution");
            }
            // held (possibly by ourselves: a self-deadlock, which then shows up as a deadlock)
            rt::block(BlockKind::Mutex, self.key());
        }
    }

    fn release(&self) {
        self.owner.set(FREE);
        rt::wake_all(BlockKind::Mutex, self.key());
    }

    fn guard(&self) -> LockResult<MutexGuard<'_, T>> {
        let g = MutexGuard { mutex: self, was_panicking: rt::panicking() };
        if self.poisoned.get() {
            Err(PoisonError::new(g))
        } else {
            Ok(g)
        }
    }

    pub fn lock(&self) -> LockResult<MutexGuard<'_, T>> {
        rt::sched_point();
        self.acquire();
        self.guard()
    }

    pub fn try_lock(&self) -> TryLockResult<MutexGuard<'_, T>> {
        rt::sched_point();
        self.try_locked.set(true);
        if self.owner.get() == FREE {
            self.owner.set(Self::me());
            match self.guard() {
                Ok(g) => Ok(g),
                Err(p) => Err(TryLockError::Poisoned(p)),
            }
        } else {
            Err(TryLockError::WouldBlock)
        }
    }

    pub fn is_poisoned(&self) -> bool {
        self.poisoned.get()
    }

    pub fn get_mut(&mut self) -> LockResult<&mut T> {
        let poisoned = self.poisoned.get();
        let v = self.data.get_mut();
        if poisoned {
            Err(PoisonError::new(v))
        } else {
            Ok(v)
        }
    }
}

impl<T: ?Sized + Default> Default for Mutex<T> {
    fn default() -> Mutex<T> {
        Mutex::new(Default::default())
    }
}

impl<T: ?Sized> fmt::Debug for Mutex<T> {
    fn fmt(&self, f: &mut fmt::Formatter<'_>) -> fmt::Result {
        f.write_str("Mutex { .. }")
    }
}

impl<'a, T: ?Sized> Deref for MutexGuard<'a, T> {
    type Target = T;
    fn deref(&self) -> &T {
        unsafe { &*self.mutex.data.get() }
    }
}

impl<'a, T: ?Sized> DerefMut for MutexGuard<'a, T> {
    fn deref_mut(&mut self) -> &mut T {
        unsafe { &mut *self.mutex.data.get() }
    }
}

impl<'a, T: ?Sized> Drop for MutexGuard<'a, T> {
    fn drop(&mut self) {
        if !self.was_panicking && rt::panicking() {
            self.mutex.poisoned.set(true);
        }
        // a release is observable through try_lock: give the schedule a chance to run an observer first
        if rt::in_task() && (self.mutex.try_locked.get() || rt::unlock_points()) {
            rt::sched_point();
        }
        self.mutex.release();
    }
}

impl<'a, T: ?Sized + fmt::Debug> fmt::Debug for MutexGuard<'a, T> {
    fn fmt(&self, f: &mut fmt::Formatter<'_>) -> fmt::Result {
        (**self).fmt(f)
    }
}

pub struct Condvar {
    _pad: Cell<u8>,
}

unsafe impl Send for Condvar {}
unsafe impl Sync for Condvar {}

impl Condvar {
    pub fn new() -> Condvar {
        Condvar { _pad: Cell::new(0) }
    }

    #[inline]
    fn key(&self) -> usize {
        self as *const _ as usize
    }

    pub fn wait<'a, T>(&self, guard: MutexGuard<'a, T>) -> LockResult<MutexGuard<'a, T>> {
        let mutex = guard.mutex;
        let was_panicking = guard.was_panicking;
        rt::sched_point();
        rt::count_blocking_call();
        if !was_panicking && rt::panicking() {
            mutex.poisoned.set(true);
        }
        std::mem::forget(guard);
        // release and block atomically
        mutex.release();
        rt::block(BlockKind::Condvar, self.key());
        mutex.acquire();
        mutex.guard()
    }

    pub fn notify_one(&self) {
        rt::sched_point();
        rt::wake_one(BlockKind::Condvar, self.key());
    }

    pub fn notify_all(&self) {
        rt::sched_point();
        rt::wake_all(BlockKind::Condvar, self.key());
    }
}

impl Default for Condvar {
    fn default() -> Condvar {
        Condvar::new()
    }
}

impl fmt::Debug for Condvar {
    fn fmt(&self, f: &mut fmt::Formatter<'_>) -> fmt::Result {
        f.write_str("Condvar { .. }")
    }
}

pub mod mpsc {
    use super::*;
    pub use std::sync::mpsc::{RecvError, SendError};

    struct Chan<T> {
        queue: UnsafeCell<VecDeque<T>>,
        senders: Cell<usize>,
        receiver_alive: Cell<bool>,
    }

    impl<T> Chan<T> {
        fn key(&self) -> usize {
            self as *const _ as usize
        }
    }

    pub struct Sender<T> {
        chan: Arc<Chan<T>>,
    }

    pub struct Receiver<T> {
        chan: Arc<Chan<T>>,
    }

    unsafe impl<T: Send> Send for Sender<T> {}
    unsafe impl<T: Send> Sync for Sender<T> {}
    unsafe impl<T: Send> Send for Receiver<T> {}

    pub fn channel<T>() -> (Sender<T>, Receiver<T>) {
        let chan = Arc::new(Chan { queue: UnsafeCell::new(VecDeque::new()), senders: Cell::new(1), receiver_alive: Cell::new(true) });
        (Sender { chan: chan.clone() }, Receiver { chan })
    }

    impl<T> Sender<T> {
        pub fn send(&self, t: T) -> Result<(), SendError<T>> {
            rt::sched_point();
            if !self.chan.receiver_alive.get() {
                return Err(SendError(t));
            }
            unsafe { (*self.chan.queue.get()).push_back(t) };
            rt::wake_all(BlockKind::Recv, self.chan.key());
            Ok(())
        }
    }

    impl<T> Clone for Sender<T> {
        fn clone(&self) -> Sender<T> {
            self.chan.senders.set(self.chan.senders.get() + 1);
            Sender { chan: self.chan.clone() }
        }
    }

    impl<T> Drop for Sender<T> {
        fn drop(&mut self) {
            let n = self.chan.senders.get() - 1;
            self.chan.senders.set(n);
            if n == 0 {
                rt::wake_all(BlockKind::Recv, self.chan.key());
            }
        }
    }

    impl<T> Receiver<T> {
        pub fn recv(&self) -> Result<T, RecvError> {
            rt::sched_point();
            rt::count_blocking_call();
            loop {
                if let Some(t) = unsafe { (*self.chan.queue.get()).pop_front() } {
                    return Ok(t);
                }
                if self.chan.senders.get() == 0 {
                    return Err(RecvError);
                }
                rt::block(BlockKind::Recv, self.chan.key());
            }
        }
    }

    impl<T> Drop for Receiver<T> {
        fn drop(&mut self) {
            self.chan.receiver_alive.set(false);
            // pending items are dropped with the channel
        }
    }

    impl<T> fmt::Debug for Sender<T> {
        fn fmt(&self, f: &mut fmt::Formatter<'_>) -> fmt::Result {
            f.write_str("Sender { .. }")
        }
    }

    impl<T> fmt::Debug for Receiver<T> {
        fn fmt(&self, f: &mut fmt::Formatter<'_>) -> fmt::Result {
            f.write_str("Receiver { .. }")
        }
    }
}
