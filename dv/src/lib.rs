//! dv: property-based testing harness for desync on the vsched controlled runtime (see /verif/DESIGN.md).
pub mod case;
pub mod decode;
pub mod gen;
pub mod interp;
pub mod norm;
pub mod oracle;
pub mod profiles;
pub mod sched;
pub mod world;
