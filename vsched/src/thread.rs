//! `std::thread`-compatible API: threads are tasks of the controlled runtime.

use crate::rt::{self, BlockKind, TaskId};
use std::cell::UnsafeCell;
use std::io;
use std::sync::Arc;

#[derive(Clone, Debug)]
pub struct Thread {
    tid: TaskId,
    epoch: u64,
}

/// Counterpart of `std::thread::ThreadId` (unique within an execution)
#[derive(Clone, Copy, Debug, PartialEq, Eq, Hash)]
pub struct ThreadId(TaskId, u64);

impl Thread {
    pub fn id(&self) -> ThreadId {
        ThreadId(self.tid, self.epoch)
    }

    pub fn unpark(&self) {
        rt::sched_point();
        rt::unpark(self.tid, self.epoch);
    }

    pub fn task_id(&self) -> TaskId {
        self.tid
    }
}

pub fn current() -> Thread {
    Thread { tid: rt::current(), epoch: rt::epoch() }
}

pub fn park() {
    rt::sched_point();
    rt::count_blocking_call();
    rt::park_current();
}

pub fn yield_now() {
    rt::sched_point();
}

pub fn panicking() -> bool {
    rt::panicking()
}

struct Slot<T>(UnsafeCell<Option<std::thread::Result<T>>>);
unsafe impl<T: Send> Send for Slot<T> {}
unsafe impl<T: Send> Sync for Slot<T> {}

pub struct JoinHandle<T> {
    tid: TaskId,
    epoch: u64,
    slot: Arc<Slot<T>>,
}

unsafe impl<T: Send> Send for JoinHandle<T> {}
unsafe impl<T: Send> Sync for JoinHandle<T> {}

impl<T> JoinHandle<T> {
    pub fn join(self) -> std::thread::Result<T> {
        rt::sched_point();
        rt::count_blocking_call();
        while !rt::task_finished(self.tid) {
            rt::block(BlockKind::Join, self.tid);
        }
        unsafe { (*self.slot.0.get()).take() }.expect("joined task left a result")
    }

    pub fn is_finished(&self) -> bool {
        rt::sched_point();
        rt::task_finished(self.tid)
    }

    pub fn thread(&self) -> Thread {
        Thread { tid: self.tid, epoch: self.epoch }
    }

    pub fn task_id(&self) -> TaskId {
        self.tid
    }
}

#[derive(Default)]
pub struct Builder {
    name: Option<String>,
}

impl Builder {
    pub fn new() -> Builder {
        Builder { name: None }
    }

    pub fn name(mut self, name: String) -> Builder {
        self.name = Some(name);
        self
    }

    pub fn stack_size(self, _size: usize) -> Builder {
        self
    }

    pub fn spawn<F, T>(self, f: F) -> io::Result<JoinHandle<T>>
    where
        F: FnOnce() -> T + Send + 'static,
        T: Send + 'static,
    {
        rt::sched_point();
        let slot = Arc::new(Slot(UnsafeCell::new(None)));
        let slot2 = slot.clone();
        let body: Box<dyn FnOnce()> = Box::new(move || {
            let r = std::panic::catch_unwind(std::panic::AssertUnwindSafe(f));
            if r.is_err() {
                rt::clear_panicking();
            }
            unsafe { *slot2.0.get() = Some(r) };
        });
        let tid = rt::spawn_task(self.name.unwrap_or_else(|| "thread".to_string()), body);
        Ok(JoinHandle { tid, epoch: rt::epoch(), slot })
    }
}

pub fn spawn<F, T>(f: F) -> JoinHandle<T>
where
    F: FnOnce() -> T + Send + 'static,
    T: Send + 'static,
{
    Builder::new().spawn(f).expect("spawn")
}

/// Spawn a named task whose closure need not be `Send` (all tasks share one OS thread). Harness use.
pub fn spawn_local<F, T>(name: &str, f: F) -> JoinHandle<T>
where
    F: FnOnce() -> T + 'static,
    T: 'static,
{
    rt::sched_point();
    let slot = Arc::new(Slot(UnsafeCell::new(None)));
    let slot2 = slot.clone();
    let body: Box<dyn FnOnce()> = Box::new(move || {
        let r = std::panic::catch_unwind(std::panic::AssertUnwindSafe(f));
        if r.is_err() {
            rt::clear_panicking();
        }
        unsafe { *slot2.0.get() = Some(r) };
    });
    let tid = rt::spawn_task(name.to_string(), body);
    JoinHandle { tid, epoch: rt::epoch(), slot }
}
